#!/usr/bin/env python3
"""tools/pack_seeds.py <src-prefix> <suffix>: copy sub-agent deliverables into /verif/seeded/<id>/
   e.g. pack_seeds.py /tmp/seed/out ''   -> seeded/C01-A ... ; pack_seeds.py /tmp/seed/r2out -r2"""
import json, os, shutil, sys, re
src, suffix = sys.argv[1], sys.argv[2]
summ = json.load(open('/verif/tools/seed_summaries.json'))
results = {}
for f in ['/tmp/seed/results.txt', '/tmp/seed/results.r2.txt', '/tmp/seed/results.r3.txt', '/tmp/seed/results.r4.txt', '/tmp/seed/results.r5.txt', '/tmp/seed/results.r6.txt']:
    if not os.path.exists(f): continue
    cur = None
    for l in open(f):
        m = re.match(r'##### seed (\S+)/(\S+)', l)
        if m: cur = (m.group(1), m.group(2)); continue
        if l.startswith('RESULT') and cur: results[(f, cur)] = l.strip()
for n in range(1, 21):
    for v in 'AB':
        d = f'{src}{n:02d}'
        if not os.path.exists(f'{d}/{v}.patch.diff'): continue
        sid = f'C{n:02d}-{v}{suffix}'
        out = f'/verif/seeded/{sid}'
        os.makedirs(out, exist_ok=True)
        if not os.path.exists(f'{out}/patch.at-7dd26ee.diff'):  # a patch rebased onto a later /repo HEAD stays
            shutil.copy(f'{d}/{v}.patch.diff', f'{out}/patch.diff')
        shutil.copy(f'{d}/{v}.demo.diff', f'{out}/demo.diff')
        if os.path.exists(f'{d}/{v}.notes.md'): shutil.copy(f'{d}/{v}.notes.md', f'{out}/notes.md')
        key = ({'': '/tmp/seed/results.txt', '-r2': '/tmp/seed/results.r2.txt', '-r3': '/tmp/seed/results.r3.txt', '-r4': '/tmp/seed/results.r4.txt', '-r5': '/tmp/seed/results.r5.txt', '-r6': '/tmp/seed/results.r6.txt'}[suffix], (f'{n:02d}', v))
        meta = {
            'id': sid, 'property': f'C{n:02d}',
            'origin': 'written by an independent sub-agent that was given only the text of the property and a scratch worktree of the repository (nothing from /verif)',
            'mechanism': summ.get(sid, {}).get('mechanism', 'see notes.md'),
            'needs_to_manifest': summ.get(sid, {}).get('needs', 'see notes.md'),
            'confirmed': {
                'how': 'tools/verify_seed.sh patch.diff demo.diff (scratch worktree of /repo under /tmp, removed afterwards): demo on the unchanged tree, demo with the change, pinned suite with the change alone, hooks-on build',
                'result': results.get(key, 'see trials.json'),
            },
            'trials': 'trials.json (written by tools/seed_pass.sh: change applied to /repo, ./check run, change undone)',
        }
        json.dump(meta, open(f'{out}/meta.json', 'w'), indent=1)
        print('packed', sid)
