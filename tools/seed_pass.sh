#!/bin/bash
# tools/seed_pass.sh <seed-dir-with-patch.diff> <ID> [tier]
# The recorded trial of one seeded change: apply it to /repo, run ./check <ID>, keep the verdict and the
# first counter-example next to the seed, undo the change straight afterwards.
set -u
D=$(readlink -f "$1"); ID=$2; TIER=${3:-quick}
# VERIF_TRIAL_DIR: a checkout of /verif at a fixed commit (so /verif itself can be edited meanwhile)
V=${VERIF_TRIAL_DIR:-/verif}
cd "$V"
COMMIT=$(git -C "$V" rev-parse --short HEAD)
if [ -n "$(git -C /repo status --porcelain --untracked-files=no)" ]; then echo "/repo is not clean"; exit 2; fi
restore() { git -C /repo checkout -- . ; }
trap restore EXIT
git -C /repo apply "$D/patch.diff" || exit 2
mkdir -p out/seedpass
s=$(date +%s)
VERIF_EVIDENCE_DIR="$V/out/seedpass/evidence" ./check $ID --tier $TIER > out/seedpass/stdout.txt 2> out/seedpass/stderr.txt
rc=$?
e=$(date +%s)
first=$(grep -m1 VIOLATION out/seedpass/stdout.txt)
why=$(grep -m1 -E '^   ' out/seedpass/stderr.txt | cut -c4-400)
nviol=$(grep -c VIOLATION out/seedpass/stdout.txt)
replay=$(echo "$first" | sed -n 's/.*replay=\(.*\)$/\1/p')
if [ -n "$replay" ] && [ -f "$replay" ]; then cp "$replay" "$D/counterexample.$ID.json"; fi
python3 - "$D" "$ID" "$TIER" "$rc" "$((e-s))" "$nviol" "$why" "$COMMIT" <<'PY'
import json,sys,os
d,ID,tier,rc,wall,nviol,why,commit=sys.argv[1:9]
p=os.path.join(d,'trials.json')
t=json.load(open(p)) if os.path.exists(p) else []
t=[x for x in t if not (x['check']==ID and x['tier']==tier)]
t.append({'check':ID,'tier':tier,'cmd':f'git -C /repo apply {d}/patch.diff && ./check {ID} --tier {tier}; git -C /repo checkout -- .','exit_code':int(rc),'wall_s':int(wall),'violation_lines':int(nviol),'first_violation':why,'verif_commit':commit})
json.dump(t,open(p,'w'),indent=1)
PY
echo "$(basename $D) $ID $TIER rc=$rc ${nviol} viol $((e-s))s :: $why" | cut -c1-300
