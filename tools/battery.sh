#!/bin/bash
# tools/battery.sh <seed-dir>: which properties' monitors react to a seeded change under one common battery of
# families with all monitors on (exploratory; scratch checkout $SEED_REPO, never /repo).  Writes <seed-dir>/battery.json
set -u
D=$(readlink -f "$1")
R=${SEED_REPO:-/tmp/seedrepo}
V=${VERIF_TRIAL_DIR:-/verif}
T=${BATTERY_TARGET:-/tmp/battery-target}
if [ -n "$(git -C "$R" status --porcelain --untracked-files=no)" ]; then echo "$R is not clean"; exit 2; fi
restore() { git -C "$R" checkout -- . ; }
trap restore EXIT
git -C "$R" apply "$D/patch.diff" || exit 2
(cd "$V/mc" && CARGO_NET_OFFLINE=true CARGO_TARGET_DIR="$T" cargo build --release --quiet --config "paths=[\"$R\"]") || exit 2
B="$T/release/ppgmc"
OUT=$(mktemp)
for spec in "s3 2 follow" "s3 2 noise follow twin" "late2 2 faults=01" "chains6 2 faults=01 k=2" "ephtrees 2 faults=01" "rename-small 3 prod faults=010 follow" "volatile3 2 follow"; do
  VERIF_DIR="$V" timeout 900 $B run $spec mon=all 2>/dev/null | grep "^violations per property" >> $OUT
done
python3 - "$D" "$OUT" <<'PY'
import json,sys,re,ast
d,out=sys.argv[1:3]
tot={}
for l in open(out):
    m=re.search(r'\{.*\}',l)
    if m:
        for k,v in ast.literal_eval(m.group(0)).items(): tot[k]=tot.get(k,0)+v
json.dump({'battery':'S3D2+follow; S3D2-noise+follow+twin; late2x; chains6 k<=2; ephtrees; rename-small prod+follow; volatile3+follow; all monitors on','monitors_that_fired':dict(sorted(tot.items()))},open(d+'/battery.json','w'),indent=1)
print(d.split('/')[-1], sorted(tot.keys()))
PY
rm -f $OUT
