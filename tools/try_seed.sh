#!/bin/bash
# tools/try_seed.sh <patch.diff> [tier] [ID ...]
# Applies a seeded change to /repo, runs the named checks (default: all 20, quick tier),
# prints one line per check, and undoes the change straight afterwards.
set -u
PATCH=$(readlink -f "$1"); shift
TIER=${1:-quick}; shift || true
IDS=${*:-$(seq -f 'C%02g' 1 20)}
# VERIF_TRIAL_DIR: run the checks from another checkout of /verif (so /verif can be edited meanwhile)
V=${VERIF_TRIAL_DIR:-/verif}
cd "$V"
# SEED_REPO: apply the change to that scratch worktree of /repo (checked through PPG_REPO) instead of /repo itself,
# for exploratory runs while /repo must stay untouched; the runs recorded in seeded/*/meta.json use /repo.
R=${SEED_REPO:-/repo}
[ "$R" != /repo ] && export PPG_REPO="$R"
if [ -n "$(git -C "$R" status --porcelain --untracked-files=no)" ]; then echo "$R is not clean"; exit 2; fi
restore() { git -C "$R" checkout -- . ; }
trap restore EXIT
git -C "$R" apply "$PATCH" || exit 2
mkdir -p out/seed
TAG=$(basename "$(dirname "$PATCH")")_$(basename "$PATCH" .patch.diff)
CAUGHT=""
for id in $IDS; do
  s=$(date +%s)
  VERIF_EVIDENCE_DIR="$V/out/seed/evidence" ./check $id --tier $TIER > out/seed/$TAG.$id.out 2> out/seed/$TAG.$id.err
  rc=$?
  e=$(date +%s)
  first=$(grep -m1 -A1 VIOLATION out/seed/$TAG.$id.out | head -1)
  why=$(grep -m1 -E '^   ' out/seed/$TAG.$id.err | cut -c1-220)
  echo "$id rc=$rc ${e}s-${s}s=$((e-s))s $first $why"
  [ $rc = 1 ] && CAUGHT="$CAUGHT $id"
done
echo "CAUGHT-BY:$CAUGHT"
