#!/usr/bin/env python3
"""tools/seed_table.py: markdown table of the seeded changes and the recorded verdicts (from seeded/*/trials.json)"""
import json, glob, os
print('| seed | change (mechanism) | check | verdict | first counter-example (clause) |')
print('|---|---|---|---|---|')
for d in sorted(glob.glob('/verif/seeded/C*')):
    sid = os.path.basename(d)
    m = json.load(open(d + '/meta.json'))
    t = json.load(open(d + '/trials.json')) if os.path.exists(d + '/trials.json') else []
    mech = m['mechanism'].replace('|', '/')
    if len(mech) > 150: mech = mech[:147] + '...'
    if not t:
        print(f'| {sid} | {mech} | | not run | |')
    for x in t:
        verdict = {1: 'VIOLATION', 0: 'silent', 2: 'machinery error'}.get(x['exit_code'], str(x['exit_code']))
        clause = x['first_violation'].split(' (')[0].split(':')[0][:60]
        print(f"| {sid} | {mech} | {x['check']} {x['tier']} | {verdict} | {clause} |")
