#!/bin/bash
# tools/verify_seed.sh <patch.diff> <demo.diff>
# Confirms, in a scratch worktree of /repo outside /repo and /verif, that a seeded change
#  (1) compiles with hooks off and on, (2) passes the pinned suite, (3) its demonstration
#  fails with the change and passes without it.  Removes the worktree afterwards.
set -u
PATCH=$(readlink -f "$1"); DEMO=$(readlink -f "$2")
W=/tmp/seedverify.$$
export CARGO_NET_OFFLINE=true
# dependencies are built once and shared between verifications; remove /tmp/seedverify-target when done
export CARGO_TARGET_DIR=/tmp/seedverify-target
git -C /repo worktree add --detach "$W" HEAD -q || exit 2
cleanup() { git -C /repo worktree remove --force "$W" 2>/dev/null; rm -rf "$W"; }
trap cleanup EXIT
cd "$W"
# names of the demo tests (added #[test] fns)
TESTS=$(grep -E '^\+\s*fn [a-zA-Z0-9_]+\s*\(' "$DEMO" | sed -E 's/^\+\s*fn ([a-zA-Z0-9_]+).*/\1/' | tr '\n' ' ')
echo "demo tests: $TESTS"
git apply "$DEMO" || { echo "RESULT demo does not apply"; exit 2; }
echo "--- demo on unchanged tree"
cargo test --offline --lib 2>&1 | grep -E "^test result|FAILED|failed" | head -5
BASE_OK=$(cargo test --offline --lib 2>&1 | grep -E "^test result" | head -1)
git apply "$PATCH" || { echo "RESULT patch does not apply"; exit 2; }
echo "--- demo + change"
OUT=$(cargo test --offline --lib 2>&1)
echo "$OUT" | grep -E "^test result|^test .*FAILED" | head -10
WITH=$(echo "$OUT" | grep -E "^test result" | head -1)
FAILED_TESTS=$(echo "$OUT" | grep -E "^test .* FAILED" | sed -E 's/^test (tests::)?([a-zA-Z0-9_:]+) .*/\2/' | tr '\n' ' ')
echo "--- change only (pinned suite)"
git apply -R "$DEMO" || { echo "RESULT cannot unapply demo"; exit 2; }
SUITE=$(cargo test --workspace --offline --no-fail-fast 2>&1 | grep -E "^test result" | head -1)
echo "$SUITE"
echo "--- hooks-on build"
if RUSTFLAGS="--cfg tyberiusprime_pypipegraph2_verif -Awarnings" CARGO_TARGET_DIR=/tmp/seedverify-target/hooks cargo build --offline --lib --quiet 2>&1 | tail -5; then HOOKS=ok; else HOOKS=fail; fi
echo "RESULT base=[$BASE_OK] with_change=[$WITH] failing=[$FAILED_TESTS] suite_with_change=[$SUITE] hooks_build=$HOOKS"
