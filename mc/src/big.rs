//! C19 (size independence): stub
pub fn check(_tier: &str, _seed: i64) -> i32 { 2 }
pub fn cmd_child(_args: &[String]) -> i32 { 2 }
