//! C19: size independence.  A finite family of big graphs x kind mixes x
//! cascade shapes x sizes x deterministic schedules, each instance in its own
//! child process (a stack overflow or abort must not take the checker down),
//! checked against a linear-time reference.
use crate::report::*;
use pypipegraph2::verif_hooks;
use pypipegraph2::{JobKind, JobState, PPGEvaluator, PPGEvaluatorError, VerifStrategy};
use rayon::prelude::*;
use std::collections::{BTreeMap, BTreeSet, HashMap, HashSet, VecDeque};
use std::hash::{Hash, Hasher};
use std::rc::Rc;
use std::time::{Duration, Instant};

#[derive(Clone, Copy, PartialEq, Eq, Debug)]
enum K {
    A,
    O,
    E,
}

struct BigGraph {
    ids: Vec<String>,
    kinds: Vec<K>,
    ups: Vec<Vec<usize>>,
    downs: Vec<Vec<usize>>,
    topo: Vec<usize>,
}

fn build(shape: &str, mix: &str, n: usize) -> BigGraph {
    let mut edges: Vec<(usize, usize)> = Vec::new();
    let mut layer_of: Vec<usize> = vec![0; n];
    match shape {
        "chain" => {
            for i in 1..n {
                edges.push((i - 1, i));
                layer_of[i] = i;
            }
        }
        "chain+side" => {
            // chain 0 -> ... -> n-3 -> sink n-1, plus an Always job n-2 feeding the sink: a requirement
            // that arises late, at the far end of the chain, when the side input finishes changed
            for i in 1..n.saturating_sub(2) {
                edges.push((i - 1, i));
                layer_of[i] = i;
            }
            if n >= 3 {
                edges.push((n - 3, n - 1));
                edges.push((n - 2, n - 1));
                layer_of[n - 1] = n - 2;
            }
        }
        "fanin" => {
            for i in 0..n - 1 {
                edges.push((i, n - 1));
            }
            layer_of[n - 1] = 1;
        }
        "fanout" => {
            for i in 1..n {
                edges.push((0, i));
                layer_of[i] = 1;
            }
        }
        "layered" => {
            // k x k, every job depends on three jobs of the previous layer
            let k = std::env::var("PPG_K").ok().and_then(|x| x.parse().ok()).unwrap_or((n as f64).sqrt().floor().max(2.0) as usize);
            let fan: usize = std::env::var("PPG_FAN").ok().and_then(|x| x.parse().ok()).unwrap_or(3);
            for i in 0..n {
                layer_of[i] = (i / k).min(n / k);
            }
            for i in k..n {
                let l = i / k;
                let pos = i % k;
                for d in 0..fan {
                    let u = (l - 1) * k + (pos + d) % k;
                    if u < n && !edges.contains(&(u, i)) {
                        edges.push((u, i));
                    }
                }
            }
        }
        "dense" => {
            // few wide layers, complete bipartite between neighbours
            let k = (n / 4).max(1);
            for i in 0..n {
                layer_of[i] = i / k;
            }
            for i in k..n {
                let l = i / k;
                for u in (l - 1) * k..l * k {
                    edges.push((u, i));
                }
            }
        }
        _ => panic!("unknown shape"),
    }
    let mut ups = vec![vec![]; n];
    let mut downs = vec![vec![]; n];
    for (u, d) in edges.iter() {
        ups[*d].push(*u);
        downs[*u].push(*d);
    }
    let kinds: Vec<K> = (0..n)
        .map(|i| {
            let root = ups[i].is_empty();
            let sink = downs[i].is_empty();
            match mix {
                "allO" => K::O,
                "altOE" => {
                    if sink || layer_of[i] % 2 == 0 {
                        K::O
                    } else {
                        K::E
                    }
                }
                "Aroots" => {
                    if root {
                        K::A
                    } else {
                        K::O
                    }
                }
                "AEO" => {
                    if root {
                        K::A
                    } else if sink {
                        K::O
                    } else {
                        K::E
                    }
                }
                "allE" => {
                    if sink {
                        K::O
                    } else {
                        K::E
                    }
                }
                _ => panic!("unknown mix"),
            }
        })
        .collect();
    let mut kinds = kinds;
    if shape == "chain+side" && n >= 3 {
        kinds[n - 2] = K::A;
    }
    let ids: Vec<String> = (0..n).map(|i| format!("j{:06}", i)).collect();
    let topo: Vec<usize> = (0..n).collect(); // edges always go from lower to higher index
    BigGraph { ids, kinds, ups, downs, topo }
}

fn hval(id: &str, ver: u8, ins: &[u64]) -> u64 {
    let mut h = std::collections::hash_map::DefaultHasher::new();
    id.hash(&mut h);
    ver.hash(&mut h);
    ins.hash(&mut h);
    h.finish()
}

struct World {
    hist: HashMap<String, String>,
    disk: HashSet<usize>,
}

struct Outcome {
    started: Vec<bool>,
    failed: Vec<bool>,
    uf: Vec<bool>,
    hist: HashMap<String, String>,
    records: Vec<Option<String>>,
    events: usize,
    aborted: bool,
}

/// linear-time reference: which jobs a failure-free evaluation executes
fn reference(g: &BigGraph, w: &World, ver: &[u8]) -> (Vec<bool>, Vec<bool>) {
    let n = g.ids.len();
    let mut rel = vec![false; n];
    for &j in g.topo.iter().rev() {
        rel[j] = g.kinds[j] != K::E || g.downs[j].iter().any(|d| g.kinds[*d] != K::E || rel[*d]);
    }
    let mut up2 = vec![false; n];
    let mut cur: Vec<Option<String>> = vec![None; n];
    let mut val: Vec<u64> = vec![0; n];
    for &j in g.topo.iter() {
        let id = &g.ids[j];
        let mut upids: Vec<&str> = g.ups[j].iter().map(|u| &g.ids[*u][..]).collect();
        upids.sort();
        let has = w.hist.contains_key(id) && w.hist.get(&format!("{}!!!", id)) == Some(&upids.join("\n"));
        let edges_ok = g.ups[j].iter().all(|u| match (w.hist.get(&format!("{}!!!{}", g.ids[*u], id)), &cur[*u]) {
            (Some(l), Some(c)) => l == c,
            _ => false,
        });
        let present = g.kinds[j] != K::O || w.disk.contains(&j);
        up2[j] = g.kinds[j] != K::A && has && edges_ok && present;
        if g.kinds[j] == K::A || (!up2[j] && rel[j]) {
            let ins: Vec<u64> = g.ups[j].iter().map(|u| val[*u]).collect();
            val[j] = hval(id, ver[j], &ins);
            cur[j] = Some(format!("{:016x}", val[j]));
        } else {
            cur[j] = w.hist.get(id).cloned();
            val[j] = cur[j].as_ref().and_then(|s| u64::from_str_radix(s, 16).ok()).unwrap_or(0);
        }
    }
    let mut exec = vec![false; n];
    for &j in g.topo.iter().rev() {
        exec[j] = g.kinds[j] == K::A || (!up2[j] && rel[j]) || (g.kinds[j] == K::E && rel[j] && up2[j] && g.downs[j].iter().any(|d| exec[*d]));
    }
    (exec, rel)
}

/// drive one evaluation with a deterministic schedule
fn evaluate(g: &BigGraph, w: &World, ver: &[u8], schedule: &str, fail: &HashSet<usize>, abort_after: Option<usize>) -> Result<Outcome, String> {
    let n = g.ids.len();
    let present: Rc<HashSet<String>> = Rc::new(w.disk.iter().map(|j| g.ids[*j].clone()).collect());
    let p2 = present.clone();
    let strat = VerifStrategy {
        output_already_present: Rc::new(move |q: &str| p2.contains(q)),
        is_history_altered: Rc::new(|_u: &str, _d: &str, l: &str, c: &str| l != c),
        get_input_list: Rc::new(|_j: &str, ups: &[&str]| ups.join("\n")),
    };
    let mut eng = PPGEvaluator::new_with_history(w.hist.clone(), strat);
    for j in 0..n {
        eng.add_node(
            &g.ids[j],
            match g.kinds[j] {
                K::A => JobKind::Always,
                K::O => JobKind::Output,
                K::E => JobKind::Ephemeral,
            },
        );
    }
    for d in 0..n {
        for u in g.ups[d].iter() {
            eng.depends_on(&g.ids[d], &g.ids[*u]);
        }
    }
    let idx: HashMap<&str, usize> = g.ids.iter().enumerate().map(|(i, s)| (&s[..], i)).collect();
    let err = |what: &str, e: PPGEvaluatorError| -> String {
        let s = format!("{:?}", e);
        format!("{}: {}", what, s.chars().take(200).collect::<String>())
    };
    verif_hooks::take_transitions();
    eng.event_startup().map_err(|e| err("event_startup", e))?;
    let mut ready: VecDeque<usize> = VecDeque::new();
    let mut started = vec![false; n];
    let mut val: Vec<u64> = vec![0; n];
    let mut have: Vec<bool> = vec![false; n];
    for j in w.disk.iter() {
        if let Some(r) = w.hist.get(&g.ids[*j]) {
            val[*j] = u64::from_str_radix(r, 16).unwrap_or(0);
            have[*j] = true;
        }
    }
    let mut records: Vec<Option<String>> = vec![None; n];
    let mut failed = vec![false; n];
    let mut events = 0usize;
    let mut aborted = false;
    let mut running: VecDeque<usize> = VecDeque::new();
    let mut collect = |ready: &mut VecDeque<usize>| {
        let mut newly: Vec<usize> = Vec::new();
        for (id, _from, to) in verif_hooks::take_transitions() {
            if crate::sim::is_ready_state(&to) {
                newly.push(*idx.get(&id[..]).unwrap());
            }
        }
        newly.sort();
        for j in newly {
            ready.push_back(j);
        }
    };
    collect(&mut ready);
    loop {
        if eng.is_finished() {
            break;
        }
        if ready.is_empty() && running.is_empty() {
            // cross-check with the engine's own answer before calling it a stall
            let q = eng.query_ready_to_run();
            return Err(format!("stall: not finished, nothing ready or running (engine ready set size {})", q.len()));
        }
        // start
        let to_start: Vec<usize> = match schedule {
            "fifo" => ready.pop_front().into_iter().collect(),
            "lifo" => ready.pop_back().into_iter().collect(),
            _ => ready.drain(..).collect(),
        };
        for j in to_start {
            eng.event_now_running(&g.ids[j]).map_err(|e| err("event_now_running", e))?;
            started[j] = true;
            running.push_back(j);
            events += 1;
        }
        collect(&mut ready);
        // finish everything that runs (max-concurrency: all started before any finishes)
        while let Some(j) = running.pop_front() {
            if fail.contains(&j) {
                eng.event_job_finished_failure(&g.ids[j]).map_err(|e| err("event_job_finished_failure", e))?;
                failed[j] = true;
            } else {
                let mut missing = None;
                let ins: Vec<u64> = g.ups[j]
                    .iter()
                    .map(|u| {
                        if !have[*u] {
                            missing = Some(*u);
                        }
                        val[*u]
                    })
                    .collect();
                if let Some(u) = missing {
                    return Err(format!(
                        "{} executed but input {} is not materialised (input kind {:?}, executed in this evaluation: {}, engine state {:?})",
                        g.ids[j],
                        g.ids[u],
                        g.kinds[u],
                        started[u],
                        eng.verif_snapshot().jobs[u].state
                    ));
                }
                val[j] = hval(&g.ids[j], ver[j], &ins);
                have[j] = true;
                let rec = format!("{:016x}", val[j]);
                records[j] = Some(rec.clone());
                eng.event_job_finished_success(&g.ids[j], rec).map_err(|e| err("event_job_finished_success", e))?;
            }
            events += 1;
            collect(&mut ready);
            if abort_after.map(|a| events >= a).unwrap_or(false) {
                // abort: report running jobs failed first, like the python runner
                while let Some(r) = running.pop_front() {
                    eng.event_job_finished_failure(&g.ids[r]).map_err(|e| err("event_job_finished_failure", e))?;
                    failed[r] = true;
                }
                eng.abort_remaining().map_err(|e| err("abort_remaining", e))?;
                aborted = true;
                break;
            }
        }
        if aborted {
            break;
        }
        // acknowledge cleanups (lifo: delayed until the end)
        if schedule != "lifo" {
            let mut cl: Vec<String> = eng.query_ready_for_cleanup().into_iter().collect();
            cl.sort();
            for c in cl {
                eng.event_job_cleanup_done(&c).map_err(|e| err("event_job_cleanup_done", e))?;
                have[*idx.get(&c[..]).unwrap()] = false;
            }
        }
    }
    if !eng.is_finished() {
        return Err("not finished after abort".into());
    }
    if !aborted {
        let r = eng.query_ready_to_run();
        if !r.is_empty() || !eng.query_jobs_running().is_empty() {
            return Err("finished but ready/running non-empty".into());
        }
    }
    let ufs = eng.query_upstream_failed();
    let uf: Vec<bool> = (0..n).map(|j| ufs.contains(&g.ids[j])).collect();
    let hist = eng.new_history().map_err(|e| err("new_history", e))?;
    Ok(Outcome {
        started,
        failed,
        uf,
        hist,
        records,
        events,
        aborted,
    })
}

fn apply(g: &BigGraph, w: &mut World, o: &Outcome) {
    w.hist = o.hist.clone();
    for j in 0..g.ids.len() {
        if g.kinds[j] == K::O {
            if o.started[j] && !o.failed[j] && o.records[j].is_some() {
                w.disk.insert(j);
            } else if o.failed[j] {
                w.disk.remove(&j);
            }
        }
    }
}

fn count(v: &[bool]) -> usize {
    v.iter().filter(|x| **x).count()
}

fn check_against_reference(g: &BigGraph, w: &World, ver: &[u8], o: &Outcome, what: &str, viol: &mut Vec<String>) {
    let (exec, _rel) = reference(g, w, ver);
    let n = g.ids.len();
    let any_failed = o.failed.iter().any(|x| *x);
    let mut extra = 0;
    let mut missing = 0;
    let mut first = None;
    for j in 0..n {
        if o.started[j] && !exec[j] {
            extra += 1;
            first.get_or_insert(j);
        }
        if !any_failed && !o.aborted && exec[j] && !o.started[j] {
            missing += 1;
            first.get_or_insert(j);
        }
    }
    if extra + missing > 0 {
        viol.push(format!(
            "{}: executed set differs from the reference: {} extra, {} missing (first {}), executed {} expected {}",
            what,
            extra,
            missing,
            g.ids[first.unwrap()],
            count(&o.started),
            count(&exec)
        ));
    }
    // records of executed jobs
    let mut bad = 0;
    for j in 0..n {
        if o.started[j] && !o.failed[j] && !o.aborted {
            if o.hist.get(&g.ids[j]) != o.records[j].as_ref() {
                bad += 1;
            }
        }
        if o.failed[j] && o.hist.contains_key(&g.ids[j]) {
            bad += 1;
        }
    }
    if bad > 0 {
        viol.push(format!("{}: {} jobs with wrong own record in the returned history", what, bad));
    }
}

/// one instance; prints a JSON line
pub fn cmd_child(args: &[String]) -> i32 {
    let (shape, mix, cascade, n, schedule) = (&args[0][..], &args[1][..], &args[2][..], args[3].parse::<usize>().unwrap(), &args[4][..]);
    let g = build(shape, mix, n);
    let mut w = World {
        hist: HashMap::new(),
        disk: HashSet::new(),
    };
    let mut ver = vec![0u8; n];
    let none: HashSet<usize> = HashSet::new();
    let mut viol: Vec<String> = Vec::new();
    let mut events = 0;
    let mut started = 0;
    let t = Instant::now();
    let roots: Vec<usize> = (0..n).filter(|j| g.ups[*j].is_empty()).collect();
    let sinks: Vec<usize> = (0..n).filter(|j| g.downs[*j].is_empty()).collect();
    let mut run = |w: &mut World, ver: &[u8], fail: &HashSet<usize>, abort: Option<usize>, what: &str, viol: &mut Vec<String>| -> Option<Outcome> {
        match std::panic::catch_unwind(std::panic::AssertUnwindSafe(|| evaluate(&g, w, ver, schedule, fail, abort))) {
            Ok(Ok(o)) => {
                check_against_reference(&g, w, ver, &o, what, viol);
                events += o.events;
                started += count(&o.started);
                apply(&g, w, &o);
                Some(o)
            }
            Ok(Err(e)) => {
                viol.push(format!("{}: {}", what, e));
                None
            }
            Err(p) => {
                viol.push(format!("{}: panic {}", what, crate::sim::panic_msg(&p)));
                None
            }
        }
    };
    let first = run(&mut w, &ver, &none, None, "first build", &mut viol);
    if first.is_some() && cascade != "first" {
        // invalidate the first root in the way its kind allows
        let mut invalidate_root = |w: &mut World, ver: &mut Vec<u8>| {
            let r = roots[0];
            match g.kinds[r] {
                K::A => ver[r] ^= 1,
                K::O => {
                    w.disk.remove(&r);
                    ver[r] ^= 1;
                }
                K::E => {
                    w.hist.remove(&g.ids[r]);
                    ver[r] ^= 1;
                }
            }
        };
        match cascade {
            "noop" => {
                if let Some(o) = run(&mut w, &ver, &none, None, "no-op re-evaluation", &mut viol) {
                    for j in 0..n {
                        if o.started[j] && g.kinds[j] == K::O {
                            viol.push(format!("no-op re-evaluation executed Output {}", g.ids[j]));
                            break;
                        }
                    }
                }
            }
            "inval-root" => {
                invalidate_root(&mut w, &mut ver);
                run(&mut w, &ver, &none, None, "invalidation at the root", &mut viol);
            }
            "inval-last-root" => {
                // the last root (for chain+side: the side input of the sink) changes
                let r = *roots.last().unwrap();
                match g.kinds[r] {
                    K::A => ver[r] ^= 1,
                    K::O => {
                        w.disk.remove(&r);
                        ver[r] ^= 1;
                    }
                    K::E => {
                        w.hist.remove(&g.ids[r]);
                        ver[r] ^= 1;
                    }
                }
                run(&mut w, &ver, &none, None, "invalidation at the last root", &mut viol);
            }
            "inval-leaf" => {
                let s = *sinks.last().unwrap();
                w.disk.remove(&s);
                run(&mut w, &ver, &none, None, "invalidation at the leaf", &mut viol);
            }
            "fail-root" => {
                invalidate_root(&mut w, &mut ver);
                let mut f = HashSet::new();
                f.insert(roots[0]);
                if let Some(o) = run(&mut w, &ver, &f, None, "failure at the root", &mut viol) {
                    // every non-Ephemeral descendant of the root must be upstream-failed
                    let mut desc = vec![false; n];
                    desc[roots[0]] = true;
                    let mut bad = 0;
                    for &j in g.topo.iter() {
                        if j != roots[0] && g.ups[j].iter().any(|u| desc[*u]) {
                            desc[j] = true;
                            if !o.uf[j] && g.kinds[j] != K::E {
                                bad += 1;
                            }
                            if o.started[j] {
                                bad += 1;
                            }
                        }
                    }
                    if bad > 0 {
                        viol.push(format!("failure at the root: {} descendants not reported upstream-failed / executed", bad));
                    }
                    // and the resume repairs everything
                    run(&mut w, &ver, &none, None, "resume after root failure", &mut viol);
                }
            }
            "abort" => {
                invalidate_root(&mut w, &mut ver);
                let half = (n / 2).max(1);
                if run(&mut w, &ver, &none, Some(half), "abort mid-way", &mut viol).is_some() {
                    run(&mut w, &ver, &none, None, "resume after abort", &mut viol);
                }
            }
            _ => {
                eprintln!("unknown cascade");
                return 2;
            }
        }
    }
    println!(
        "{}",
        serde_json::json!({"shape": shape, "mix": mix, "cascade": cascade, "size": n, "schedule": schedule, "violations": viol, "events": events, "executed": started, "wall_s": t.elapsed().as_secs_f64()})
    );
    0
}

fn run_child(exe: &std::path::Path, inst: &[String], timeout: Duration) -> Result<serde_json::Value, String> {
    use std::process::{Command, Stdio};
    let mut child = Command::new(exe).arg("big-child").args(inst).stdout(Stdio::piped()).stderr(Stdio::null()).spawn().map_err(|e| format!("spawn: {}", e))?;
    let t0 = Instant::now();
    loop {
        match child.try_wait() {
            Ok(Some(status)) => {
                let mut out = String::new();
                use std::io::Read;
                child.stdout.take().unwrap().read_to_string(&mut out).ok();
                if !status.success() {
                    return Ok(serde_json::json!({"crashed": format!("{:?}", status), "violations": [format!("engine crashed the process: {:?}", status)]}));
                }
                return serde_json::from_str(out.lines().last().unwrap_or("")).map_err(|e| format!("bad child output: {} / {}", e, out));
            }
            Ok(None) => {
                if t0.elapsed() > timeout {
                    child.kill().ok();
                    child.wait().ok();
                    return Ok(serde_json::json!({"timeout": true, "violations": []}));
                }
                std::thread::sleep(Duration::from_millis(5));
            }
            Err(e) => return Err(format!("wait: {}", e)),
        }
    }
}

pub fn check(tier: &str, seed: i64) -> i32 {
    let t0 = Instant::now();
    let exe = std::env::current_exe().unwrap();
    let thorough = tier == "thorough";
    let sizes: Vec<usize> = if thorough { vec![10, 100, 400, 600, 1000, 1600, 3000, 10000, 30000] } else { vec![10, 100, 600, 1600, 4000] };
    let shapes = ["chain", "chain+side", "layered", "fanin", "fanout", "dense"];
    let mixes = ["allO", "altOE", "Aroots", "AEO", "allE"];
    let cascades = ["first", "noop", "inval-root", "inval-last-root", "inval-leaf", "fail-root", "abort"];
    let schedules = ["fifo", "lifo", "maxconc"];
    let mut insts: Vec<Vec<String>> = Vec::new();
    for sz in sizes.iter() {
        for sh in shapes.iter() {
            if *sh == "dense" && *sz > 700 {
                continue; // n^2/16 edges: bounded separately
            }
            for mx in mixes.iter() {
                for ca in cascades.iter() {
                    for sc in schedules.iter() {
                        insts.push(vec![sh.to_string(), mx.to_string(), ca.to_string(), sz.to_string(), sc.to_string()]);
                    }
                }
            }
        }
    }
    let timeout = Duration::from_secs(if thorough { 600 } else { 100 });
    let results: Vec<(Vec<String>, Result<serde_json::Value, String>)> = insts.par_iter().map(|i| (i.clone(), run_child(&exe, i, timeout))).collect();
    let mut groups: BTreeMap<String, (u64, Vec<String>, String)> = BTreeMap::new();
    let mut timeouts = Vec::new();
    // wall time of every finished instance, to judge the ones that did not finish
    let mut walls: BTreeMap<(String, String, String, String), Vec<(usize, f64)>> = BTreeMap::new();
    for (inst, r) in results.iter() {
        if let Ok(j) = r {
            if let Some(w) = j.get("wall_s").and_then(|x| x.as_f64()) {
                walls.entry((inst[0].clone(), inst[1].clone(), inst[2].clone(), inst[4].clone())).or_default().push((inst[3].parse().unwrap(), w));
            }
        }
    }
    let mut evs: u64 = 0;
    let mut executed: u64 = 0;
    let mut samples = Vec::new();
    let mut outcomes: BTreeSet<String> = BTreeSet::new();
    for (inst, r) in results.iter() {
        match r {
            Err(e) => {
                eprintln!("MACHINERY ERROR: {:?}: {}", inst, e);
                return 2;
            }
            Ok(j) => {
                if j.get("timeout").is_some() {
                    // a time limit is not a verdict by itself (slow machine); it is one when the
                    // same instance family at <= half the size needed less than 1/200 of the limit:
                    // no polynomial of reasonable degree grows that fast
                    let n: usize = inst[3].parse().unwrap();
                    let smaller = walls
                        .get(&(inst[0].clone(), inst[1].clone(), inst[2].clone(), inst[4].clone()))
                        .and_then(|v| v.iter().filter(|(sz, _)| *sz * 2 <= n).max_by_key(|(sz, _)| *sz).cloned());
                    match smaller {
                        Some((sz, w)) if w * 200.0 < timeout.as_secs_f64() => {
                            let msg = format!(
                                "{}: blowup: not finished within {}s at {} jobs while {} jobs took {:.3}s (super-polynomial growth)",
                                inst[2],
                                timeout.as_secs(),
                                n,
                                sz,
                                w
                            );
                            let kind = format!("blowup/{}", inst[2]);
                            let e = groups.entry(kind).or_insert((0, inst.clone(), msg.clone()));
                            e.0 += 1;
                            if n < e.1[3].parse::<usize>().unwrap() {
                                e.1 = inst.clone();
                                e.2 = msg;
                            }
                        }
                        _ => timeouts.push(inst.join(" ")),
                    }
                    continue;
                }
                evs += j["events"].as_u64().unwrap_or(0);
                executed += j["executed"].as_u64().unwrap_or(0);
                outcomes.insert(format!("{} {} {} {} -> {}", inst[0], inst[1], inst[2], inst[3], j["executed"]));
                if samples.len() < 3 && inst[3] != "10" {
                    samples.push(j.clone());
                }
                for v in j["violations"].as_array().cloned().unwrap_or_default() {
                    let msg = v.as_str().unwrap_or("").to_string();
                    // signature: the kind of failure, independent of size and schedule
                    let kind = classify(&msg);
                    let e = groups.entry(kind).or_insert((0, inst.clone(), msg.clone()));
                    e.0 += 1;
                    if inst[3].parse::<usize>().unwrap() < e.1[3].parse::<usize>().unwrap() {
                        e.1 = inst.clone();
                        e.2 = msg;
                    }
                }
            }
        }
    }
    let known = load_known();
    let mut code = 0;
    let mut nviol = 0;
    let mut known_lines = Vec::new();
    // printed only when the whole judgement went through without a machinery error
    let mut violation_lines: Vec<String> = Vec::new();
    let out_dir = verif_dir().join("out").join("replays");
    std::fs::create_dir_all(&out_dir).ok();
    for (kind, (cnt, inst, msg)) in groups.iter() {
        let mut tags = BTreeMap::new();
        tags.insert("kind".to_string(), kind.clone());
        if let Some(k) = known.iter().find(|k| matches(k, "C19", "big-instance", &tags)) {
            let l = format!("KNOWN-FINDING: property=C19 {} {} [{} instances, smallest: {}]", k.id, k.what_fails, cnt, inst.join(" "));
            println!("{}", l);
            known_lines.push(l);
            continue;
        }
        // re-run the smallest failing instance twice before reporting
        let mut reproduced = 0;
        for _ in 0..2 {
            if let Ok(j) = run_child(&exe, inst, timeout) {
                if j["violations"].as_array().map(|a| a.iter().any(|v| classify(v.as_str().unwrap_or("")) == *kind)).unwrap_or(false) {
                    reproduced += 1;
                } else if kind.starts_with("blowup/") && j.get("timeout").is_some() {
                    reproduced += 1;
                }
            }
        }
        if reproduced < 2 {
            if kind.starts_with("blowup/") {
                // a time limit that is not hit again when the instance runs alone is load, not growth:
                // reported as a cap, never as a verdict
                timeouts.push(format!("{} (finished when re-run alone: not counted as a blow-up)", inst.join(" ")));
                continue;
            }
            eprintln!("MACHINERY ERROR: C19 instance {:?} not reproducible ({}): {}", inst, reproduced, msg);
            return 2;
        }
        let path = out_dir.join(format!("C19_{}.json", nviol));
        std::fs::write(&path, serde_json::to_string_pretty(&serde_json::json!({"big_instance": inst, "kind": kind, "message": msg})).unwrap()).ok();
        violation_lines.push(format!("VIOLATION property=C19 replay={}", path.display()));
        eprintln!("   {} instances: {} (smallest {})", cnt, msg, inst.join(" "));
        nviol += 1;
        code = 1;
    }
    let mut c = crate::chain::Counters::default();
    c.configurations = insts.len() as u64;
    c.transitions = evs;
    c.states = evs;
    let mut ex = crate::monitors::Exercised::default();
    ex.add("C19.instances", insts.len() as u64);
    ex.add("C19.jobs-executed", executed);
    write_evidence(EvidenceInput {
        prop: "C19",
        tier,
        level: "exploration",
        seed,
        wall_s: t0.elapsed().as_secs_f64(),
        counters: &c,
        ex: &ex,
        samples,
        bounds_completed: vec![format!(
            "shapes {:?} x mixes {:?} x cascades {:?} x sizes {:?} x schedules {:?}; dense only up to 700 jobs",
            shapes, mixes, cascades, sizes, schedules
        )],
        caps_hit: timeouts.iter().map(|t| format!("instance not finished within {}s: {}", timeout.as_secs(), t)).collect(),
        violations: nviol,
        known_findings: known_lines,
        rule: "a case is one instance (shape, kind mix, cascade, size, deterministic schedule) run in its own process against the real engine and compared with a linear-time reference; distinct = distinct (shape, mix, cascade, size) with its number of executed jobs; non-trivial = size >= 100".into(),
        exhaustive: timeouts.is_empty(),
        assumptions: vec![
            "exhaustive over the finite family listed in bounds_completed, NOT over schedules: three deterministic schedules per instance".into(),
            "main-thread default stack of the child process (8 MiB) is what a user has".into(),
        ],
        distinct_nontrivial: outcomes.iter().filter(|o| !o.contains(" 10 -> ")).count() as u64,
        extra: serde_json::json!({"instances": insts.len(), "timeouts": timeouts.len()}),
    });
    for l in violation_lines.iter() {
        println!("{}", l);
    }
    eprintln!("[C19] {} instances, {} events, {} violation kinds, {} timeouts, {:.1}s", insts.len(), evs, groups.len(), timeouts.len(), t0.elapsed().as_secs_f64());
    code
}

fn classify(msg: &str) -> String {
    let phase = msg.split(':').next().unwrap_or("").to_string();
    let what = if msg.contains("Depth ConsiderJob") {
        "depth-limit"
    } else if msg.contains("crashed") {
        "crash"
    } else if msg.contains("InternalError") {
        "internal-error"
    } else if msg.contains("panic") {
        "panic"
    } else if msg.contains("stall") {
        "stall"
    } else if msg.contains("executed set differs") {
        "executed-set"
    } else if msg.contains("not materialised") {
        "missing-input"
    } else if msg.contains("upstream-failed") {
        "uf-reporting"
    } else if msg.contains("own record") {
        "records"
    } else {
        "other"
    };
    format!("{}/{}", what, phase)
}

/// `./check --replay <C19 file>`: run the recorded instance twice in child processes
pub fn replay(v: &serde_json::Value, path: &str) -> i32 {
    let inst: Vec<String> = v["big_instance"].as_array().map(|a| a.iter().map(|x| x.as_str().unwrap_or("").to_string()).collect()).unwrap_or_default();
    let kind = v["kind"].as_str().unwrap_or("").to_string();
    if inst.len() != 5 {
        eprintln!("bad C19 replay file {}", path);
        return 2;
    }
    let exe = std::env::current_exe().unwrap();
    let timeout = Duration::from_secs(std::env::var("VERIF_C19_TIMEOUT_S").ok().and_then(|x| x.parse().ok()).unwrap_or(100));
    println!("replaying C19 instance {} (recorded: {})", inst.join(" "), kind);
    let mut verdicts = Vec::new();
    for _ in 0..2 {
        match run_child(&exe, &inst, timeout) {
            Ok(j) => {
                let viol: Vec<String> = j["violations"].as_array().map(|a| a.iter().map(|x| x.as_str().unwrap_or("").to_string()).collect()).unwrap_or_default();
                let timed_out = j.get("timeout").is_some();
                for m in viol.iter().take(3) {
                    println!("  -> {}", m.chars().take(300).collect::<String>());
                }
                if timed_out {
                    println!("  -> not finished within {}s", timeout.as_secs());
                }
                verdicts.push(!viol.is_empty() || (timed_out && kind.starts_with("blowup/")));
            }
            Err(e) => {
                eprintln!("MACHINERY ERROR: {}", e);
                return 2;
            }
        }
    }
    if verdicts[0] != verdicts[1] {
        eprintln!("MACHINERY ERROR: two replays disagree");
        return 2;
    }
    if verdicts[0] {
        println!("VIOLATION property=C19 replay={}", path);
        1
    } else {
        println!("not reproduced: the property holds on this replay");
        0
    }
}
