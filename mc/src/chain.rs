//! Outer search: chains of evaluations over worlds (history + disk), with
//! provenance, plus the per-configuration analyses that need more than one
//! evaluation (follow-ups, declaration orders, twins).
use crate::explore::*;
use crate::model::*;
use crate::monitors::*;
use crate::sim::*;
use rayon::prelude::*;
use serde::{Deserialize, Serialize};
use std::collections::{BTreeMap, BTreeSet};
use std::rc::Rc;
use std::sync::atomic::{AtomicBool, Ordering};
use std::sync::Mutex;
use std::time::Instant;

#[derive(Clone, Copy, Debug, PartialEq, Eq, Serialize, Deserialize)]
pub enum Orders {
    None,
    /// identity + reversed node order + reversed edge order
    Few,
    /// all node permutations x {edge order, reversed}
    AllNodes,
    /// all node permutations x all edge permutations (n<=3)
    All,
}

#[derive(Clone, Debug, Serialize, Deserialize)]
pub struct Spec {
    pub name: String,
    pub depth: usize,
    /// faults (failures + aborts) allowed in step i
    pub faults: Vec<bool>,
    pub cmp: Cmp,
    pub conv: Conv,
    pub noise: bool,
    pub fail_mode: FailMode,
    /// max number of edits per chain step relative to the previous
    /// configuration (None: every configuration of the universe)
    pub edit_bound: Option<usize>,
    /// edit bound after a step that was interrupted
    pub edit_bound_after_fault: Option<usize>,
    pub follow: bool,
    pub orders: Orders,
    /// explore the other declaration orders with the step's faults too (else failure-free)
    #[serde(default)]
    pub orders_faulty: bool,
    pub twin: bool,
    pub misuse: bool,
    pub reconsider: bool,
    pub mon: Mon,
    /// validate every terminal by stateless replay (else one per configuration)
    pub validate_all: bool,
}

impl Spec {
    pub fn new(name: &str, depth: usize, mon: Mon) -> Spec {
        Spec {
            name: name.to_string(),
            depth,
            faults: vec![true; depth],
            cmp: Cmp::Plain,
            conv: Conv::JobIds,
            noise: false,
            fail_mode: FailMode::Corrupt,
            edit_bound: None,
            edit_bound_after_fault: None,
            follow: false,
            orders: Orders::None,
            orders_faulty: false,
            twin: false,
            misuse: false,
            reconsider: false,
            mon,
            validate_all: true,
        }
    }
}

/// the graphs a chain step may choose from
#[derive(Clone, Debug)]
pub struct Universe {
    pub label: String,
    pub graphs: Vec<Graph>,
}

/// one step of a chain, self-contained
#[derive(Clone, Debug, PartialEq, Eq, Serialize, Deserialize)]
pub struct StepRec {
    pub graph: Graph,
    pub versions: Vec<u8>,
    /// outputs deleted before the evaluation
    pub deleted: Vec<String>,
    pub seams: [usize; 2],
    pub events: Vec<Ev>,
}

#[derive(Clone, Debug, PartialEq, Eq, Hash, PartialOrd, Ord)]
pub struct WorldKey {
    pub hist: Hist,
    pub disk: Disk,
    /// previous configuration (only when an edit bound is in force)
    pub prev: Option<(usize, Vec<(String, u8)>)>,
    pub prev_interrupted: bool,
}

struct WorldRec {
    key: WorldKey,
    parent: Option<usize>,
    step: Option<StepRec>,
}

#[derive(Clone, Debug, Serialize, Deserialize)]
pub struct Report {
    pub property: String,
    pub clause: String,
    pub message: String,
    pub tags: BTreeMap<String, String>,
    pub family: String,
    pub universe: String,
    /// evaluations that produce the starting world, from the empty world
    pub chain: Vec<StepRec>,
    /// the configuration in which the violation shows; `events` lead to it
    pub last: StepRec,
    /// "explore": shows while exploring `last`; otherwise the analysis that found it
    pub stage: String,
}

#[derive(Default, Clone, Debug, Serialize)]
pub struct Counters {
    pub configurations: u64,
    pub states: u64,
    pub transitions: u64,
    pub terminals: u64,
    pub distinct_outcomes: u64,
    pub replays_validated: u64,
    pub worlds: u64,
    pub followup_evaluations: u64,
    pub order_variants: u64,
    pub twin_pairs: u64,
    pub misuse_calls: u64,
    pub max_events: u64,
    pub dead_paths: u64,
    pub seam0_configs: u64,
    pub seam1_configs: u64,
    pub ambiguous_configs: u64,
    pub interrupted_terminals: u64,
    pub max_chain_depth: u64,
}

impl Counters {
    pub fn merge(&mut self, o: &Counters) {
        self.configurations += o.configurations;
        self.states += o.states;
        self.transitions += o.transitions;
        self.terminals += o.terminals;
        self.distinct_outcomes += o.distinct_outcomes;
        self.replays_validated += o.replays_validated;
        self.worlds += o.worlds;
        self.followup_evaluations += o.followup_evaluations;
        self.order_variants += o.order_variants;
        self.twin_pairs += o.twin_pairs;
        self.misuse_calls += o.misuse_calls;
        self.max_events = self.max_events.max(o.max_events);
        self.dead_paths += o.dead_paths;
        self.seam0_configs += o.seam0_configs;
        self.seam1_configs += o.seam1_configs;
        self.ambiguous_configs += o.ambiguous_configs;
        self.interrupted_terminals += o.interrupted_terminals;
        self.max_chain_depth = self.max_chain_depth.max(o.max_chain_depth);
    }
}

/// what analysing one configuration yields
pub struct ConfigResult {
    pub counters: Counters,
    pub ex: Exercised,
    /// (violation, stage, events in the analysed configuration)
    pub viol: Vec<(Viol, String, Vec<Ev>)>,
    pub terminals: BTreeMap<Terminal, Vec<Ev>>,
}

pub fn make_cfg(spec: &Spec, graph: &Graph, versions: &[u8], hist: &Hist, disk: &Disk, step: usize, seams: [usize; 2]) -> Cfg {
    Cfg {
        graph: graph.clone(),
        versions: versions.to_vec(),
        hist: hist.clone(),
        disk: disk.clone(),
        noise: if spec.noise { Some(step as u32) } else { None },
        step: step as u32,
        cmp: spec.cmp,
        conv: spec.conv,
        fail_mode: spec.fail_mode,
        seams,
    }
}

fn opts_for(spec: &Spec, faults: bool) -> Opts {
    Opts {
        allow_fail: faults,
        allow_abort: faults,
        allow_reconsider: spec.reconsider,
        misuse: spec.misuse,
        mon: spec.mon,
        validate: true,
        validate_all: spec.validate_all,
    }
}

fn outcome_by_id(cfg: &Cfg, t: &Terminal) -> (BTreeMap<String, (Disp, bool)>, Hist) {
    ((0..cfg.graph.n()).map(|j| (cfg.graph.jobs[j].id.clone(), (t.disp[j].clone(), t.offered[j]))).collect(), t.hist.clone())
}

fn permutations(n: usize) -> Vec<Vec<usize>> {
    if n == 0 {
        return vec![vec![]];
    }
    let mut out = Vec::new();
    for p in permutations(n - 1) {
        for i in 0..n {
            let mut q = p.clone();
            q.insert(i, n - 1);
            out.push(q);
        }
    }
    out
}

/// the whole analysis of one configuration: inner search plus the analyses
/// the spec switches on.  Used by the outer search and by replays alike.
pub fn analyze(cfg: &Cfg, spec: &Spec, faults: bool) -> Result<ConfigResult, MachineryError> {
    let cfg = Rc::new(cfg.clone());
    let refr = Rc::new(reference(&cfg));
    let opts = opts_for(spec, faults);
    pypipegraph2::verif_hooks::reset_seam_width();
    let ex = explore_with(&cfg, &refr, &opts)?;
    let w0 = pypipegraph2::verif_hooks::seam_width(0);
    let w1 = pypipegraph2::verif_hooks::seam_width(1);
    let mut res = ConfigResult {
        counters: Counters::default(),
        ex: ex.ex.clone(),
        viol: Vec::new(),
        terminals: BTreeMap::new(),
    };
    let c = &mut res.counters;
    c.configurations = 1;
    c.states = ex.states;
    c.transitions = ex.transitions;
    c.terminals = ex.terminals.len() as u64;
    c.replays_validated = ex.replays;
    c.max_events = ex.max_depth as u64;
    c.dead_paths = ex.dead_paths;
    c.interrupted_terminals = ex.terminals.keys().filter(|t| t.interrupted()).count() as u64;
    if refr.ambiguous {
        c.ambiguous_configs = 1;
    }
    let outcomes: BTreeSet<(&Vec<Disp>, &Hist, &Disk)> = ex.terminals.keys().map(|t| (&t.disp, &t.hist, &t.disk)).collect();
    c.distinct_outcomes = outcomes.len() as u64;
    for f in ex.viol.iter() {
        res.viol.push((f.viol.clone(), "explore".into(), f.events.clone()));
    }

    // ordering seams: enumerate the ranks when a seam saw more than one candidate
    let mut seam_variants: Vec<[usize; 2]> = Vec::new();
    if w0 >= 2 {
        res.counters.seam0_configs = 1;
        let f: usize = (1..=w0).product();
        for r in 1..f.min(24) {
            seam_variants.push([r, cfg.seams[1]]);
        }
    }
    if w1 >= 2 {
        res.counters.seam1_configs = 1;
        let f: usize = (1..=w1).product();
        for r in 1..f.min(24) {
            seam_variants.push([cfg.seams[0], r]);
        }
    }
    let base: BTreeSet<_> = ex.driver_fault_free_terminals().iter().map(|(t, _)| outcome_by_id(&cfg, t)).collect();
    let ff_opts = Opts {
        allow_fail: false,
        allow_abort: false,
        allow_reconsider: false,
        misuse: false,
        mon: spec.mon,
        validate: false,
        validate_all: false,
    };
    for sv in seam_variants {
        let mut c2 = (*cfg).clone();
        c2.seams = sv;
        let c2 = Rc::new(c2);
        let ex2 = explore_with(&c2, &refr, &ff_opts)?;
        res.counters.order_variants += 1;
        res.counters.states += ex2.states;
        res.counters.transitions += ex2.transitions;
        for f in ex2.viol.iter() {
            let mut v = f.viol.clone();
            v.msg = format!("[seams {:?}] {}", sv, v.msg);
            res.viol.push((v, format!("seams:{},{}", sv[0], sv[1]), f.events.clone()));
        }
        if on(spec.mon, 14) || on(spec.mon, 15) {
            let other: BTreeSet<_> = ex2.driver_fault_free_terminals().iter().map(|(t, _)| outcome_by_id(&c2, t)).collect();
            if other != base {
                let p = if spec.noise && on(spec.mon, 15) { "C15" } else { "C14" };
                res.viol.push((
                    viol(p, "iteration-order-dependent-outcome", format!("internal iteration order (seams {:?}) changes the outcome: {:?} vs {:?}", sv, other, base)),
                    format!("seams:{},{}", sv[0], sv[1]),
                    vec![],
                ));
            }
        }
    }

    if spec.orders != Orders::None && (spec.orders_faulty || on(spec.mon, 14) || on(spec.mon, 15) || on(spec.mon, 5) || on(spec.mon, 6)) {
        let mut o = ff_opts;
        if spec.orders_faulty {
            o.allow_fail = faults;
            o.allow_abort = faults;
        }
        declaration_orders(&cfg, spec, &base, &o, &mut res)?;
    }
    if spec.follow {
        followups(&cfg, spec, &ex, &mut res)?;
    }
    if spec.twin {
        twin(&cfg, spec, &ex, faults, &mut res)?;
    }
    res.ex.merge(&Exercised::default());
    res.terminals = ex.terminals;
    Ok(res)
}

/// C14: declaration order of nodes and edges must not matter (failure free)
fn declaration_orders(
    cfg: &Rc<Cfg>,
    spec: &Spec,
    base: &BTreeSet<(BTreeMap<String, (Disp, bool)>, Hist)>,
    ff_opts: &Opts,
    res: &mut ConfigResult,
) -> Result<(), MachineryError> {
    let n = cfg.graph.n();
    let ne = cfg.graph.edges.len();
    let node_perms: Vec<Vec<usize>> = match spec.orders {
        Orders::Few => {
            let id: Vec<usize> = (0..n).collect();
            let mut rev = id.clone();
            rev.reverse();
            if n > 1 {
                vec![id, rev]
            } else {
                vec![id]
            }
        }
        _ => permutations(n),
    };
    let edge_perms: Vec<Vec<usize>> = match spec.orders {
        Orders::All if ne <= 4 => permutations(ne),
        _ => {
            let id: Vec<usize> = (0..ne).collect();
            let mut rev = id.clone();
            rev.reverse();
            if ne > 1 {
                vec![id, rev]
            } else {
                vec![id]
            }
        }
    };
    for perm in node_perms.iter() {
        for eperm in edge_perms.iter() {
            let ident = perm.iter().enumerate().all(|(i, p)| i == *p) && eperm.iter().enumerate().all(|(i, p)| i == *p);
            if ident {
                continue;
            }
            // perm[newpos] = old index
            let jobs: Vec<JobDef> = perm.iter().map(|o| cfg.graph.jobs[*o].clone()).collect();
            let inv: Vec<usize> = (0..n).map(|o| perm.iter().position(|x| *x == o).unwrap()).collect();
            let edges: Vec<Edge> = eperm
                .iter()
                .map(|i| {
                    let e = &cfg.graph.edges[*i];
                    Edge {
                        up: inv[e.up],
                        down: inv[e.down],
                        read: e.read,
                        parts: e.parts.clone(),
                    }
                })
                .collect();
            let mut c2 = (**cfg).clone();
            c2.graph = Graph { jobs, edges };
            c2.versions = perm.iter().map(|o| cfg.versions[*o]).collect();
            let c2 = Rc::new(c2);
            let ex2 = explore(&c2, ff_opts)?;
            res.counters.order_variants += 1;
            res.counters.states += ex2.states;
            res.counters.transitions += ex2.transitions;
            res.ex.hit("C14.declaration-order-variant");
            let stage = format!("order:{}/{}", perm.iter().map(|x| x.to_string()).collect::<Vec<_>>().join(""), eperm.iter().map(|x| x.to_string()).collect::<Vec<_>>().join(""));
            for f in ex2.viol.iter() {
                let mut v = f.viol.clone();
                v.msg = format!("[declaration order {:?} edges {:?}] {}", perm, eperm, v.msg);
                // events refer to job indexes of the permuted graph: translate back
                let evs: Vec<Ev> = f
                    .events
                    .iter()
                    .map(|e| match e {
                        Ev::Start(j) => Ev::Start(perm[*j]),
                        Ev::Ok(j) => Ev::Ok(perm[*j]),
                        Ev::Fail(j) => Ev::Fail(perm[*j]),
                        Ev::Ack(j) => Ev::Ack(perm[*j]),
                        o => *o,
                    })
                    .collect();
                res.viol.push((v, stage.clone(), evs));
            }
            if on(spec.mon, 14) || on(spec.mon, 15) {
                let other: BTreeSet<_> = ex2.driver_fault_free_terminals().iter().map(|(t, _)| outcome_by_id(&c2, t)).collect();
                if &other != base {
                    let p = if spec.noise && on(spec.mon, 15) { "C15" } else { "C14" };
                    res.viol.push((
                        viol(
                            p,
                            "declaration-order-dependent-outcome",
                            format!("declaration order nodes {:?} edges {:?} changes the outcome: {:?} vs {:?}", perm, eperm, other, base),
                        ),
                        stage.clone(),
                        vec![],
                    ));
                }
            }
        }
    }
    Ok(())
}

/// one more evaluation from every terminal world: C08 (re-executed), C09
/// (resume), C12 (no-op), and all state/terminal monitors on the way
fn followups(cfg: &Rc<Cfg>, spec: &Spec, ex: &Explored, res: &mut ConfigResult) -> Result<(), MachineryError> {
    let g = &cfg.graph;
    let n = g.n();
    let ff = ex.failure_free_terminals();
    let distinct_ff: BTreeSet<(&Vec<Disp>, &Hist, &Disk)> = ff.iter().map(|(t, _)| (&t.disp, &t.hist, &t.disk)).collect();
    // the uninterrupted evaluation; if it is not unique C14 reports that, and C09 has no reference
    let t0: Option<&Terminal> = if distinct_ff.len() == 1 { Some(ff[0].0) } else { None };
    // jobs an unchanged re-evaluation may execute
    let mut may12 = vec![false; n];
    for &j in g.topo().iter().rev() {
        may12[j] = g.jobs[j].kind == Kind::A || (g.jobs[j].kind == Kind::E && g.downs(j).iter().any(|d| may12[*d]));
    }
    let opts = Opts {
        allow_fail: false,
        allow_abort: false,
        allow_reconsider: false,
        misuse: false,
        mon: spec.mon,
        validate: false,
        validate_all: false,
    };
    // same world, same follow-up evaluation; only the C08/C09 clauses look at what happened to each
    // job in the interrupted evaluation, so with them on the dispositions are part of the key
    let by_disp = on(spec.mon, 8) || on(spec.mon, 9);
    let mut done: BTreeSet<(&Hist, &Disk, Option<(&Vec<Disp>, &Vec<bool>)>)> = BTreeSet::new();
    for (t, tev) in ex.terminals.iter() {
        if !done.insert((&t.hist, &t.disk, if by_disp { Some((&t.disp, &t.started)) } else { None })) {
            continue;
        }
        let mut c2 = (**cfg).clone();
        c2.hist = t.hist.clone();
        c2.disk = t.disk.clone();
        c2.step = cfg.step + 1;
        c2.noise = cfg.noise.map(|x| x + 1);
        let c2 = Rc::new(c2);
        let ex2 = explore(&c2, &opts)?;
        res.counters.followup_evaluations += 1;
        res.counters.states += ex2.states;
        res.counters.transitions += ex2.transitions;
        let stage = format!("follow:{}", tev.iter().map(ev_str).collect::<Vec<_>>().join(","));
        for f in ex2.viol.iter() {
            let mut v = f.viol.clone();
            v.msg = format!("[follow-up evaluation after {:?}{}] {}", t.disp, if t.aborted { " aborted" } else { "" }, v.msg);
            res.viol.push((v, stage.clone(), f.events.clone()));
        }
        let interrupted = t.interrupted();
        if on(spec.mon, 12) && !interrupted && ex2.terminals.is_empty() {
            // "... and returns a history equal to the one it started from": it returns none at all
            res.viol.push((
                viol("C12", "reevaluation-does-not-finish", format!("re-evaluating the unchanged project does not end in a finished evaluation ({} paths ended in an engine error)", ex2.dead_paths)),
                stage.clone(),
                vec![],
            ));
        }
        let mut push = |p: &'static str, clause: &'static str, msg: String, tags: Vec<(&'static str, String)>, evs: &Vec<Ev>| {
            let mut v = viol(p, clause, msg);
            for (k, val) in tags {
                v = v.tag(k, val);
            }
            res.viol.push((v, stage.clone(), evs.clone()));
        };
        for (t2, ev2) in ex2.terminals.iter() {
            if !interrupted {
                if on(spec.mon, 12) {
                    res.ex.hit("C12.noop-terminal");
                    for j in 0..n {
                        if t2.started[j] && g.jobs[j].kind == Kind::O {
                            push("C12", "output-executed", format!("{} (Output) executed on unchanged re-evaluation; first run {:?}", g.jobs[j].id, t.disp), vec![], ev2);
                        }
                        if t2.started[j] && !may12[j] {
                            push(
                                "C12",
                                "unneeded-executed",
                                format!("{} executed on unchanged re-evaluation but no Always job consumes it", g.jobs[j].id),
                                vec![("kind", format!("{:?}", g.jobs[j].kind))],
                                ev2,
                            );
                        }
                    }
                    if !hist_equiv(&c2, &t.hist, &t2.hist) {
                        push("C12", "history-changed", format!("history changed by no-op re-evaluation: {:?} -> {:?}", t.hist, t2.hist), vec![], ev2);
                    }
                }
            } else {
                for j in 0..n {
                    if on(spec.mon, 9) {
                        if let Some(t0) = t0 {
                            res.ex.hit("C09.resume-job");
                            if t2.started[j] && !t0.started[j] {
                                push(
                                    "C09",
                                    "resume-executes-extra",
                                    format!(
                                        "resume executes {} which the uninterrupted evaluation would not (interrupted outcome {:?} aborted={})",
                                        g.jobs[j].id, t.disp, t.aborted
                                    ),
                                    vec![("disp", format!("{:?}", t.disp[j])), ("kind", format!("{:?}", g.jobs[j].kind))],
                                    ev2,
                                );
                            }
                        }
                        if t2.started[j] && g.jobs[j].kind == Kind::O && t.disp[j] == Disp::Ok {
                            push(
                                "C09",
                                "resume-reexecutes-succeeded",
                                format!("resume re-executes Output {} that had succeeded (interrupted outcome {:?} aborted={})", g.jobs[j].id, t.disp, t.aborted),
                                vec![],
                                ev2,
                            );
                        }
                    }
                    if on(spec.mon, 8) && t.started[j] && matches!(t.disp[j], Disp::Failed | Disp::AbortedRunning) {
                        res.ex.hit("C08.failed-job-followed-up");
                        let exempt = g.jobs[j].kind == Kind::E && !g.relevant()[j];
                        let ups_ok = g.ancestors(j).iter().all(|a| !matches!(t2.disp[*a], Disp::Failed | Disp::UF | Disp::Aborted | Disp::AbortedRunning));
                        if ups_ok && !t2.started[j] && !exempt {
                            push(
                                "C08",
                                "failed-not-reexecuted",
                                format!("{} failed/was interrupted but the next evaluation does not execute it ({:?})", g.jobs[j].id, t2.disp[j]),
                                vec![],
                                ev2,
                            );
                        }
                    }
                }
                if on(spec.mon, 9) && !t2.any_failed && !t2.aborted {
                    if let Some(t0) = t0 {
                        res.ex.hit("C09.resume-finished");
                        if t2.disk != t0.disk {
                            push("C09", "resume-outputs-differ", format!("resumed outputs {:?} differ from uninterrupted {:?}", t2.disk, t0.disk), vec![], ev2);
                        }
                        if !hist_equiv(&c2, &t0.hist, &t2.hist) {
                            push(
                                "C09",
                                "resume-history-differs",
                                format!(
                                    "resumed history differs from uninterrupted: {:?} vs {:?} (interrupted outcome {:?} aborted={})",
                                    t2.hist, t0.hist, t.disp, t.aborted
                                ),
                                vec![],
                                ev2,
                            );
                        }
                    }
                }
            }
        }
    }
    Ok(())
}

pub fn ev_str(e: &Ev) -> String {
    match e {
        Ev::Start(j) => format!("S{}", j),
        Ev::Ok(j) => format!("K{}", j),
        Ev::Fail(j) => format!("F{}", j),
        Ev::Ack(j) => format!("A{}", j),
        Ev::Abort(true) => "XF".into(),
        Ev::Abort(false) => "X".into(),
        Ev::Reconsider => "R".into(),
    }
}

pub fn ev_parse(s: &str) -> Option<Ev> {
    let num = |t: &str| t.parse::<usize>().ok();
    match s {
        "XF" => Some(Ev::Abort(true)),
        "X" => Some(Ev::Abort(false)),
        "R" => Some(Ev::Reconsider),
        _ => {
            let (h, t) = s.split_at(1);
            match h {
                "S" => num(t).map(Ev::Start),
                "K" => num(t).map(Ev::Ok),
                "F" => num(t).map(Ev::Fail),
                "A" => num(t).map(Ev::Ack),
                _ => None,
            }
        }
    }
}

fn normalise_hist(h: &Hist) -> Hist {
    h.iter().map(|(k, v)| (k.clone(), strip(v).to_string())).collect()
}

/// C15: a configuration with noisy records and its normalised twin (all
/// records replaced by their class representative, no noise) must behave alike
fn twin(cfg: &Rc<Cfg>, spec: &Spec, ex: &Explored, faults: bool, res: &mut ConfigResult) -> Result<(), MachineryError> {
    if cfg.noise.is_none() {
        return Ok(());
    }
    let mut c2 = (**cfg).clone();
    c2.hist = normalise_hist(&cfg.hist);
    c2.noise = None;
    let c2 = Rc::new(c2);
    let mut opts = opts_for(spec, faults);
    opts.misuse = false;
    opts.validate = false;
    let ex2 = explore(&c2, &opts)?;
    res.counters.twin_pairs += 1;
    res.counters.states += ex2.states;
    res.counters.transitions += ex2.transitions;
    res.ex.hit("C15.twin-pair");
    type Norm = (Vec<Disp>, Vec<bool>, Hist, Disk, bool);
    let norm = |t: &Terminal| -> Norm { (t.disp.clone(), t.started.clone(), normalise_hist(&t.hist), t.disk.clone(), t.aborted) };
    let a: BTreeMap<Norm, &Vec<Ev>> = ex.terminals.iter().map(|(t, e)| (norm(t), e)).collect();
    let b: BTreeMap<Norm, &Vec<Ev>> = ex2.terminals.iter().map(|(t, e)| (norm(t), e)).collect();
    if cfg.hist.values().any(|v| v.contains('|')) {
        res.ex.hit("C15.twin-pair-with-noisy-history");
    }
    for (k, e) in a.iter() {
        if !b.contains_key(k) {
            // which job differs?  find the twin terminal with the same schedule, if any
            let msg = format!(
                "with noisy records the schedule {:?} ends in {:?} started {:?}; the normalised twin has no such outcome (twin outcomes: {:?})",
                e,
                k.0,
                k.1,
                b.keys().map(|x| (&x.0, &x.1)).collect::<Vec<_>>()
            );
            res.viol.push((viol("C15", "noisy-differs-from-twin", msg), "twin".into(), (*e).clone()));
            break;
        }
    }
    for (k, e) in b.iter() {
        if !a.contains_key(k) {
            let msg = format!("the normalised twin reaches {:?} started {:?} via {:?}; the noisy configuration has no such outcome", k.0, k.1, e);
            res.viol.push((viol("C15", "twin-differs-from-noisy", msg), "twin".into(), (*e).clone()));
            break;
        }
    }
    let errs = |x: &Explored| -> BTreeSet<String> { x.viol.iter().filter(|f| f.viol.prop == "C06" || f.viol.prop == "C16").map(|f| format!("{}:{}", f.viol.prop, f.viol.clause)).collect() };
    let (ea, eb) = (errs(ex), errs(&ex2));
    if ea != eb {
        res.viol.push((
            viol("C15", "errors-differ-from-twin", format!("errors with noisy records {:?}, in the normalised twin {:?}", ea, eb)),
            "twin".into(),
            vec![],
        ));
    }
    Ok(())
}

// ---------------------------------------------------------------------------
// outer search

pub struct Collector {
    pub counters: Counters,
    pub ex: Exercised,
    /// (property, clause, tag signature) -> (count, best example)
    pub groups: BTreeMap<(String, String, String), (u64, Report)>,
    pub samples: Vec<serde_json::Value>,
    pub caps_hit: Vec<String>,
    pub bounds_completed: Vec<String>,
    pub seen_cfg: std::collections::HashSet<u128>,
    pub distinct_nontrivial: u64,
}

impl Collector {
    pub fn new() -> Self {
        Collector {
            counters: Counters::default(),
            ex: Exercised::default(),
            groups: BTreeMap::new(),
            samples: Vec::new(),
            caps_hit: Vec::new(),
            bounds_completed: Vec::new(),
            seen_cfg: std::collections::HashSet::new(),
            distinct_nontrivial: 0,
        }
    }
    pub fn add_report(&mut self, r: Report) {
        let sig = r.tags.iter().map(|(k, v)| format!("{}={}", k, v)).collect::<Vec<_>>().join(";");
        let key = (r.property.clone(), r.clause.clone(), sig);
        let size = |r: &Report| (r.chain.len(), r.chain.iter().map(|s| s.events.len() + s.graph.n()).sum::<usize>() + r.last.events.len() + r.last.graph.n(), r.last.graph.edges.len());
        match self.groups.get_mut(&key) {
            Some((c, best)) => {
                *c += 1;
                if size(&r) < size(best) {
                    *best = r;
                }
            }
            None => {
                self.groups.insert(key, (1, r));
            }
        }
    }
}

pub struct Limits {
    pub deadline: Option<Instant>,
    pub stop: AtomicBool,
}

fn version_vectors(g: &Graph) -> Vec<Vec<u8>> {
    let always: Vec<usize> = (0..g.n()).filter(|j| g.jobs[*j].kind == Kind::A).collect();
    (0..(1usize << always.len()))
        .map(|vv| {
            let mut v = vec![0u8; g.n()];
            for (i, j) in always.iter().enumerate() {
                v[*j] = ((vv >> i) & 1) as u8;
            }
            v
        })
        .collect()
}

fn graph_distance(a: &Graph, b: &Graph) -> usize {
    let ja: BTreeSet<&JobDef> = a.jobs.iter().collect();
    let jb: BTreeSet<&JobDef> = b.jobs.iter().collect();
    let ea: BTreeSet<(&str, &str, bool, &Vec<String>)> = a.edges.iter().map(|e| (&a.jobs[e.up].id[..], &a.jobs[e.down].id[..], e.read, &e.parts)).collect();
    let eb: BTreeSet<(&str, &str, bool, &Vec<String>)> = b.edges.iter().map(|e| (&b.jobs[e.up].id[..], &b.jobs[e.down].id[..], e.read, &e.parts)).collect();
    // removing/adding a job implies its edges: count only edges between jobs present in both
    let common: BTreeSet<&str> = ja.intersection(&jb).map(|j| &j.id[..]).collect();
    let ed = ea.symmetric_difference(&eb).filter(|e| common.contains(e.0) && common.contains(e.1)).count();
    ja.symmetric_difference(&jb).count() + ed
}

struct StepOut {
    fingerprint: u128,
    nontrivial: bool,
    parent: usize,
    result: ConfigResult,
    step: StepRec,
    gi: usize,
}

/// BFS over worlds for one universe
pub fn run_universe(spec: &Spec, uni: &Universe, coll: &Mutex<Collector>, limits: &Limits) -> Result<(), MachineryError> {
    let mut worlds: Vec<WorldRec> = Vec::new();
    let mut index: BTreeMap<WorldKey, usize> = BTreeMap::new();
    let w0 = WorldKey {
        hist: Hist::new(),
        disk: Disk::new(),
        prev: None,
        prev_interrupted: false,
    };
    index.insert(w0.clone(), 0);
    worlds.push(WorldRec {
        key: w0,
        parent: None,
        step: None,
    });
    let mut frontier: Vec<usize> = vec![0];
    let versions_of: Vec<Vec<Vec<u8>>> = uni.graphs.iter().map(version_vectors).collect();
    let mut local = Counters::default();
    let seen_cfg: Mutex<std::collections::HashSet<u128>> = Mutex::new(std::collections::HashSet::new());
    let mut fingerprints: Vec<(u128, bool)> = Vec::new();
    for step in 0..spec.depth {
        if limits.stop.load(Ordering::Relaxed) {
            break;
        }
        // enumerate the work items of this level
        let mut items: Vec<(usize, usize, Vec<u8>, Vec<String>)> = Vec::new();
        for &wi in frontier.iter() {
            let w = &worlds[wi].key;
            for (gi, g) in uni.graphs.iter().enumerate() {
                for versions in versions_of[gi].iter() {
                    let deletable: Vec<&String> = w.disk.keys().filter(|k| g.jobs.iter().any(|j| j.kind == Kind::O && j.parts().contains(&&k[..]))).collect();
                    for dv in 0..(1usize << deletable.len()) {
                        let deleted: Vec<String> = deletable.iter().enumerate().filter(|(i, _)| dv & (1 << i) != 0).map(|(_, k)| (*k).clone()).collect();
                        let bound = if w.prev_interrupted { spec.edit_bound_after_fault.or(spec.edit_bound) } else { spec.edit_bound };
                        if let (Some(k), Some((pgi, pver))) = (bound, &w.prev) {
                            let pg = &uni.graphs[*pgi];
                            let flips = g
                                .jobs
                                .iter()
                                .enumerate()
                                .filter(|(j, jd)| jd.kind == Kind::A && pver.iter().any(|(id, v)| id == &jd.id && *v != versions[*j]))
                                .count();
                            if graph_distance(pg, g) + flips + deleted.len() > k {
                                continue;
                            }
                        }
                        items.push((wi, gi, versions.clone(), deleted));
                    }
                }
            }
        }
        let faults = spec.faults.get(step).copied().unwrap_or(true);
        let results: Vec<Result<Option<StepOut>, MachineryError>> = items
            .par_iter()
            .map(|(wi, gi, versions, deleted)| {
                if limits.stop.load(Ordering::Relaxed) {
                    return Ok(None);
                }
                if let Some(d) = limits.deadline {
                    if Instant::now() > d {
                        limits.stop.store(true, Ordering::Relaxed);
                        return Ok(None);
                    }
                }
                let w = &worlds[*wi].key;
                let g = &uni.graphs[*gi];
                let mut disk = w.disk.clone();
                for d in deleted {
                    disk.remove(d);
                }
                let cfg = make_cfg(spec, g, versions, &w.hist, &disk, step, [0, 0]);
                let fingerprint = cfg.fingerprint();
                if !seen_cfg.lock().unwrap().insert(fingerprint) {
                    // the same configuration was reached from another world + deletion set
                    return Ok(None);
                }
                // a panic that escapes the per-call catch_unwind (inside a query, the snapshot hook, or the
                // harness itself) is a machinery error with the configuration named, never a raw crash
                let mut result = match std::panic::catch_unwind(std::panic::AssertUnwindSafe(|| analyze(&cfg, spec, faults))) {
                    Ok(r) => r?,
                    Err(p) => {
                        return Err(MachineryError(format!(
                            "panic outside a guarded engine call while analysing {} (versions {:?}, deleted {:?}): {}",
                            g.describe(),
                            versions,
                            deleted,
                            crate::sim::panic_msg(&p)
                        )))
                    }
                };
                let nontrivial = result.counters.states >= 3;
                if step + 1 == spec.depth && result.terminals.len() > 1 {
                    // last level: terminals are only needed as a sample
                    let last = result.terminals.pop_last().unwrap();
                    let first = result.terminals.pop_first().unwrap();
                    result.terminals.clear();
                    result.terminals.insert(first.0, first.1);
                    result.terminals.insert(last.0, last.1);
                }
                Ok(Some(StepOut {
                    fingerprint,
                    nontrivial,
                    parent: *wi,
                    result,
                    step: StepRec {
                        graph: g.clone(),
                        versions: versions.clone(),
                        deleted: deleted.clone(),
                        seams: [0, 0],
                        events: vec![],
                    },
                    gi: *gi,
                }))
            })
            .collect();
        let mut next: Vec<usize> = Vec::new();
        let complete = !limits.stop.load(Ordering::Relaxed);
        let mut ex_local = Exercised::default();
        let mut reports: Vec<Report> = Vec::new();
        let mut samples: Vec<serde_json::Value> = Vec::new();
        #[allow(unused_assignments)]
        let mut continue_sampling = true;
        for r in results {
            let so = match r? {
                Some(x) => x,
                None => continue,
            };
            local.merge(&so.result.counters);
            ex_local.merge(&so.result.ex);
            fingerprints.push((so.fingerprint, so.nontrivial));
            let chain = provenance(&worlds, so.parent);
            if !so.result.viol.is_empty() {
                for (v, stage, evs) in so.result.viol.iter() {
                    let mut last = so.step.clone();
                    last.events = evs.clone();
                    reports.push(Report {
                        property: v.prop.to_string(),
                        clause: v.clause.to_string(),
                        message: v.msg.clone(),
                        tags: v.tags.iter().map(|(k, v)| (k.to_string(), v.clone())).collect(),
                        family: spec.name.clone(),
                        universe: uni.label.clone(),
                        chain: chain.clone(),
                        last,
                        stage: stage.clone(),
                    });
                }
            }
            if step + 1 == spec.depth && so.result.terminals.len() > 1 {
                // samples: the largest cases seen (jobs, then events), so that a reader sees a non-trivial one
                let (t, e) = so.result.terminals.iter().max_by_key(|(_, e)| e.len()).unwrap();
                let score = (so.step.graph.n() * 100 + e.len() + 10 * chain.len()) as u64;
                if samples.len() >= 2 {
                    let min = samples.iter().map(|x: &serde_json::Value| x["size_score"].as_u64().unwrap_or(0)).min().unwrap_or(0);
                    if score <= min {
                        continue_sampling = false;
                    } else {
                        let pos = samples.iter().position(|x| x["size_score"].as_u64().unwrap_or(0) == min).unwrap();
                        samples.remove(pos);
                        continue_sampling = true;
                    }
                } else {
                    continue_sampling = true;
                }
                if continue_sampling {
                samples.push(serde_json::json!({
                    "size_score": score,
                    "family": spec.name, "universe": uni.label,
                    "chain": chain.iter().map(step_summary).collect::<Vec<_>>(),
                    "graph": so.step.graph.describe(), "versions": so.step.versions, "deleted": so.step.deleted,
                    "events": e.iter().map(ev_str).collect::<Vec<_>>(),
                    "dispositions": format!("{:?}", t.disp),
                }));
                }
            }
            if step + 1 < spec.depth {
                for (t, evs) in so.result.terminals.iter() {
                    let prev = if spec.edit_bound.is_some() {
                        Some((so.gi, so.step.graph.jobs.iter().enumerate().filter(|(_, jd)| jd.kind == Kind::A).map(|(j, jd)| (jd.id.clone(), so.step.versions[j])).collect()))
                    } else {
                        None
                    };
                    let key = WorldKey {
                        hist: t.hist.clone(),
                        disk: t.disk.clone(),
                        prev,
                        prev_interrupted: spec.edit_bound.is_some() && t.interrupted(),
                    };
                    if !index.contains_key(&key) {
                        let mut st = so.step.clone();
                        st.events = evs.clone();
                        let id = worlds.len();
                        index.insert(key.clone(), id);
                        worlds.push(WorldRec {
                            key,
                            parent: Some(so.parent),
                            step: Some(st),
                        });
                        next.push(id);
                    }
                }
            }
        }
        {
            let mut c = coll.lock().unwrap();
            c.ex.merge(&ex_local);
            for (fp, nt) in fingerprints.drain(..) {
                if c.seen_cfg.insert(fp) && nt {
                    c.distinct_nontrivial += 1;
                }
            }
            for r in reports {
                c.add_report(r);
            }
            c.samples.extend(samples);
            c.samples.sort_by_key(|x| std::cmp::Reverse(x["size_score"].as_u64().unwrap_or(0)));
            c.samples.truncate(3);
            if complete {
                local.max_chain_depth = (step + 1) as u64;
            }
        }
        if !complete {
            break;
        }
        frontier = next;
    }
    local.worlds = worlds.len() as u64;
    let mut c = coll.lock().unwrap();
    c.counters.merge(&local);
    Ok(())
}

pub fn step_summary(s: &StepRec) -> serde_json::Value {
    serde_json::json!({"graph": s.graph.describe(), "versions": s.versions, "deleted": s.deleted, "events": s.events.iter().map(ev_str).collect::<Vec<_>>()})
}

fn provenance(worlds: &[WorldRec], mut wi: usize) -> Vec<StepRec> {
    let mut out = Vec::new();
    loop {
        let w = &worlds[wi];
        match (&w.step, w.parent) {
            (Some(s), Some(p)) => {
                out.push(s.clone());
                wi = p;
            }
            _ => break,
        }
    }
    out.reverse();
    out
}

/// run a family: all universes in parallel
pub fn run_family(spec: &Spec, universes: &[Universe], coll: &Mutex<Collector>, limits: &Limits) -> Result<(), MachineryError> {
    let t = Instant::now();
    let results: Vec<Result<(), MachineryError>> = universes.par_iter().map(|u| run_universe(spec, u, coll, limits)).collect();
    for r in results {
        r?;
    }
    let mut c = coll.lock().unwrap();
    let done = !limits.stop.load(Ordering::Relaxed);
    let line = format!("{}: {} universes, depth {}, {:.1}s{}", spec.name, universes.len(), spec.depth, t.elapsed().as_secs_f64(), if done { "" } else { " (time cap hit, incomplete)" });
    if done {
        c.bounds_completed.push(line);
    } else {
        c.caps_hit.push(line);
    }
    Ok(())
}

/// execute a recorded chain from the empty world, then analyse `last`
pub fn replay_report(rep: &Report, spec: &Spec) -> Result<Vec<(Viol, String, Vec<Ev>)>, MachineryError> {
    let mut hist = Hist::new();
    let mut disk = Disk::new();
    for (i, st) in rep.chain.iter().enumerate() {
        for d in &st.deleted {
            disk.remove(d);
        }
        let cfg = Rc::new(make_cfg(spec, &st.graph, &st.versions, &hist, &disk, i, st.seams));
        let refr = Rc::new(reference(&cfg));
        let (sim, term, _f) = replay(&cfg, &refr, &st.events, 0);
        match term {
            Some(t) => {
                hist = t.hist;
                disk = t.disk;
            }
            None => {
                return Err(MachineryError(format!("replay: chain step {} does not end in a finished evaluation (dead={})", i, sim.dead)));
            }
        }
    }
    for d in &rep.last.deleted {
        disk.remove(d);
    }
    let step = rep.chain.len();
    let cfg = make_cfg(spec, &rep.last.graph, &rep.last.versions, &hist, &disk, step, rep.last.seams);
    let faults = spec.faults.get(step).copied().unwrap_or(true);
    let r = analyze(&cfg, spec, faults)?;
    Ok(r.viol)
}
