//! Inner search: all driver-event interleavings of one configuration.
use crate::model::*;
use crate::monitors::*;
use crate::sim::*;
use std::collections::{BTreeMap, HashSet};
use std::rc::Rc;

#[derive(Clone, Copy, Debug)]
pub struct Opts {
    pub allow_fail: bool,
    pub allow_abort: bool,
    pub allow_reconsider: bool,
    pub misuse: bool,
    pub mon: Mon,
    /// re-derive terminals by stateless replay and compare
    pub validate: bool,
    /// true: the first and last eight terminals of the configuration (all, if it has at most 16);
    /// false: the first and last four (graphs of four and more jobs)
    pub validate_all: bool,
}

impl Opts {
    pub fn faulty(mon: Mon) -> Self {
        Opts {
            allow_fail: true,
            allow_abort: true,
            allow_reconsider: false,
            misuse: false,
            mon,
            validate: true,
            validate_all: true,
        }
    }
    pub fn failure_free(mon: Mon) -> Self {
        Opts {
            allow_fail: false,
            allow_abort: false,
            allow_reconsider: false,
            misuse: false,
            mon,
            validate: true,
            validate_all: true,
        }
    }
}

#[derive(Clone, Debug)]
pub struct Found {
    pub viol: Viol,
    pub events: Vec<Ev>,
}

#[derive(Default)]
pub struct Explored {
    pub states: u64,
    pub transitions: u64,
    pub terminals: BTreeMap<Terminal, Vec<Ev>>,
    pub viol: Vec<Found>,
    pub ex: Exercised,
    pub replays: u64,
    pub max_depth: usize,
    pub dead_paths: u64,
    /// schedules without driver faults that end in an unfinished state with nothing enabled
    pub stalls: Vec<Vec<Ev>>,
}

impl Explored {
    pub fn failure_free_terminals(&self) -> Vec<(&Terminal, &Vec<Ev>)> {
        self.terminals.iter().filter(|(t, _)| !t.aborted && !t.any_failed).collect()
    }
    /// terminals of schedules in which the driver injected no fault: a failure the engine declares by
    /// itself (EphemeralChangedOutput) in some schedules only is an outcome that depends on the schedule
    pub fn driver_fault_free_terminals(&self) -> Vec<(&Terminal, &Vec<Ev>)> {
        self.terminals.iter().filter(|(t, _)| !t.driver_fault).collect()
    }
}

pub struct MachineryError(pub String);

/// stateless re-execution of an event list on a fresh engine
pub fn replay(cfg: &Rc<Cfg>, refr: &Rc<Reference>, evs: &[Ev], m: Mon) -> (Sim, Option<Terminal>, Vec<Found>) {
    let mut ex = Exercised::default();
    let mut found = Vec::new();
    let mut sim = Sim::new(cfg.clone(), refr.clone());
    sim.startup();
    let mut i = 0;
    loop {
        check_transitions(&mut sim, m, &mut ex);
        if !sim.dead {
            let snap = sim.eng.verif_snapshot();
            check_state(&mut sim, &snap, m, &mut ex);
        }
        for v in sim.viol.drain(..) {
            found.push(Found {
                viol: v,
                events: evs[..i].to_vec(),
            });
        }
        if sim.dead || i >= evs.len() {
            break;
        }
        sim.apply(evs[i]);
        i += 1;
    }
    let mut term = None;
    if !sim.dead && sim.eng.is_finished() {
        let snap = sim.eng.verif_snapshot();
        term = terminal_checks(&mut sim, &snap, m, &mut ex);
        for v in sim.viol.drain(..) {
            found.push(Found {
                viol: v,
                events: evs.to_vec(),
            });
        }
    }
    (sim, term, found)
}

pub fn explore(cfg: &Rc<Cfg>, opts: &Opts) -> Result<Explored, MachineryError> {
    let refr = Rc::new(reference(cfg));
    explore_with(cfg, &refr, opts)
}

pub fn explore_with(cfg: &Rc<Cfg>, refr: &Rc<Reference>, opts: &Opts) -> Result<Explored, MachineryError> {
    let m = opts.mon;
    let mut out = Explored::default();
    let mut seen: HashSet<Vec<u8>> = HashSet::new();
    let mut root = Sim::new(cfg.clone(), refr.clone());
    if opts.misuse {
        // the state before event_startup is reachable too: every event but the start-up is illegal there
        misuse_checks(&mut root, &mut out.ex);
        for v in root.viol.drain(..) {
            out.viol.push(Found { viol: v, events: vec![] });
        }
    }
    root.startup();
    out.transitions += 1;
    let mut stack: Vec<Sim> = vec![root];
    let limit = 4 * cfg.graph.n() + 4;
    while let Some(mut sim) = stack.pop() {
        check_transitions(&mut sim, m, &mut out.ex);
        if sim.dead {
            out.dead_paths += 1;
        } else {
            let snap = sim.eng.verif_snapshot();
            let key = sim.key(&snap);
            if seen.insert(key) {
                out.states += 1;
                if sim.events.len() > out.max_depth {
                    out.max_depth = sim.events.len();
                }
                if sim.events.len() > limit {
                    if on(m, 5) {
                        sim.viol.push(viol("C05", "too-many-events", format!("evaluation not finished after {} events", sim.events.len())));
                    }
                    sim.dead = true;
                }
                // C20 probes come first: check_state polls is_finished(), which latches the engine's start
                // status once every job is finished; the state in which nobody has polled yet must be probed too
                if opts.misuse && !sim.dead {
                    misuse_checks(&mut sim, &mut out.ex);
                }
                check_state(&mut sim, &snap, m, &mut out.ex);
                let fin = sim.eng.is_finished();
                let en = if sim.dead {
                    vec![]
                } else {
                    sim.enabled(opts.allow_fail, opts.allow_abort, opts.allow_reconsider)
                };
                if !fin && !sim.dead && en.is_empty() && !sim.aborted && !sim.res.iter().any(|r| matches!(r, Res::Failed | Res::AbortedRunning)) && out.stalls.len() < 4 {
                    out.stalls.push(sim.events.clone());
                }
                if fin && !sim.dead {
                    if let Some(t) = terminal_checks(&mut sim, &snap, m, &mut out.ex) {
                        if en.is_empty() {
                            out.terminals.entry(t).or_insert_with(|| sim.events.clone());
                        }
                    }
                }
                for e in en.into_iter().rev() {
                    let mut f = sim.fork();
                    f.apply(e);
                    out.transitions += 1;
                    stack.push(f);
                }
            }
        }
        for k in sim.notes.drain(..) {
            out.ex.hit(k);
        }
        for v in sim.viol.drain(..) {
            out.viol.push(Found {
                viol: v,
                events: sim.events.clone(),
            });
        }
    }
    // C14 (within one configuration): failure-free outcomes must agree
    if on(m, 14) {
        let mut c14: Option<Found> = None;
        let mut any_ff = false;
        {
            let ff: Vec<(&Terminal, &Vec<Ev>)> = out.driver_fault_free_terminals();
            any_ff = !ff.is_empty();
            // outcome: disposition of every job (for an executed Ephemeral this includes whether its
            // cleanup was offered) and the returned history
            let mut distinct: BTreeMap<(&Vec<Disp>, &Hist, &Vec<bool>), &Vec<Ev>> = BTreeMap::new();
            for (t, e) in ff.iter() {
                distinct.entry((&t.disp, &t.hist, &t.offered)).or_insert(e);
            }
            if !ff.is_empty() && !out.stalls.is_empty() {
                c14 = Some(Found {
                    viol: viol(
                        "C14",
                        "schedule-dependent-stall",
                        format!("the schedule {:?} finishes, the schedule {:?} ends unfinished with nothing ready or running", ff[0].1, out.stalls[0]),
                    ),
                    events: out.stalls[0].clone(),
                });
            }
            if distinct.len() > 1 && c14.is_none() {
                let mut it = distinct.iter();
                let a = it.next().unwrap();
                let b = it.next().unwrap();
                c14 = Some(Found {
                    viol: viol(
                        "C14",
                        "schedule-dependent-outcome",
                        format!(
                            "{} distinct failure-free outcomes, e.g. after {:?}: {:?} / {:?} / cleanup offered {:?}  vs after {:?}: {:?} / {:?} / cleanup offered {:?}",
                            distinct.len(),
                            a.1,
                            a.0 .0,
                            a.0 .1,
                            a.0 .2,
                            b.1,
                            b.0 .0,
                            b.0 .1,
                            b.0 .2
                        ),
                    ),
                    events: (*b.1).clone(),
                });
            }
        }
        if any_ff {
            out.ex.hit("C14.config-with-ff-terminal");
        }
        if let Some(f) = c14 {
            out.viol.push(f);
        }
    }
    // trace validation: the forked search and a stateless replay must agree
    if opts.validate {
        let nt = out.terminals.len();
        for (i, (t, evs)) in out.terminals.iter().enumerate() {
            // the first and last `keep` terminals (in the order of the terminal map) of every configuration
            let keep = if opts.validate_all { 8 } else { 4 };
            if i >= keep && i + keep < nt {
                continue;
            }
            let (_s, t2, _f) = replay(cfg, refr, evs, m);
            out.replays += 1;
            if t2.as_ref() != Some(t) {
                return Err(MachineryError(format!(
                    "replay divergence: cfg {} events {:?}: search terminal {:?} replay terminal {:?}",
                    cfg.graph.describe(),
                    evs,
                    t,
                    t2
                )));
            }
        }
    }
    Ok(out)
}
