//! ppgmc: explicit-state model checking of the real pypipegraph2 engine.
mod big;
mod chain;
mod explore;
mod families;
mod model;
mod monitors;
mod plan;
mod report;
mod sim;

fn main() {
    std::panic::set_hook(Box::new(|_| {}));
    let args: Vec<String> = std::env::args().collect();
    let code = match args.get(1).map(|s| &s[..]) {
        Some("check") => plan::cmd_check(&args[2..]),
        Some("replay") => plan::cmd_replay(&args[2..]),
        Some("big-child") => {
            // PPG_STACK_KB: run the instance on a thread with that stack size (default: the main thread)
            match std::env::var("PPG_STACK_KB").ok().and_then(|x| x.parse::<usize>().ok()) {
                Some(kb) => {
                    let a: Vec<String> = args[2..].to_vec();
                    std::thread::Builder::new().stack_size(kb * 1024).spawn(move || big::cmd_child(&a)).unwrap().join().unwrap_or(3)
                }
                None => big::cmd_child(&args[2..]),
            }
        }
        Some("run") => plan::cmd_run(&args[2..]),
        Some("trace") => plan::cmd_trace(&args[2..]),
        Some("plan") => plan::cmd_plan(),
        _ => {
            eprintln!("usage: ppgmc check <ID> --tier quick|thorough | replay <file> | run <family> ...");
            2
        }
    };
    std::process::exit(code);
}
