//! Alphabet and reference model (DESIGN.md 3.2, 3.4).
//!
//! Everything here is boring sequential code that does not know how the
//! engine works: graphs, deterministic job behaviour, the configured
//! comparison, and the oracle functions `relevant / uptodate / exec / clean`.
use serde::{Deserialize, Serialize};
use std::collections::{BTreeMap, BTreeSet};

pub type Hist = BTreeMap<String, String>;
pub type Disk = BTreeMap<String, String>;

#[derive(Clone, Copy, PartialEq, Eq, Hash, Debug, PartialOrd, Ord, Serialize, Deserialize)]
pub enum Kind {
    A,
    O,
    E,
}

#[derive(Clone, Debug, PartialEq, Eq, Hash, PartialOrd, Ord, Serialize, Deserialize)]
pub struct JobDef {
    pub id: String,
    pub kind: Kind,
    /// the job's value does not depend on any input (colliding outputs / shielding)
    #[serde(default)]
    pub ignores_inputs: bool,
    /// Ephemeral whose value contains the evaluation index (C16 family only)
    #[serde(default)]
    pub volatile: bool,
    /// multi-output job whose i-th part reads only the i-th direct upstream (sorted by id): its outputs
    /// change independently of each other, so a consumer of one part is unaffected by a change of another
    #[serde(default)]
    pub split_inputs: bool,
    /// with `volatile`: only the last part contains the evaluation index
    #[serde(default)]
    pub volatile_last_only: bool,
    /// per part (in id order) the ids of the upstreams it reads; empty: every part reads all upstreams
    #[serde(default)]
    pub part_inputs: Vec<Vec<String>>,
}

impl JobDef {
    pub fn new(id: &str, kind: Kind) -> Self {
        JobDef {
            id: id.to_string(),
            kind,
            ignores_inputs: false,
            volatile: false,
            split_inputs: false,
            volatile_last_only: false,
            part_inputs: vec![],
        }
    }
    pub fn parts(&self) -> Vec<&str> {
        self.id.split(":::").collect()
    }
}

#[derive(Clone, Debug, PartialEq, Eq, Hash, PartialOrd, Ord, Serialize, Deserialize)]
pub struct Edge {
    pub up: usize,
    pub down: usize,
    /// false: the downstream declares the dependency but its value ignores it
    #[serde(default = "yes")]
    pub read: bool,
    /// parts of the upstream the downstream consumes; empty = all of them
    #[serde(default)]
    pub parts: Vec<String>,
}
fn yes() -> bool {
    true
}

#[derive(Clone, Debug, PartialEq, Eq, Hash, PartialOrd, Ord, Serialize, Deserialize)]
pub struct Graph {
    /// declaration order
    pub jobs: Vec<JobDef>,
    /// declaration order
    pub edges: Vec<Edge>,
}

impl Graph {
    pub fn n(&self) -> usize {
        self.jobs.len()
    }
    pub fn idx(&self, id: &str) -> Option<usize> {
        self.jobs.iter().position(|j| j.id == id)
    }
    /// direct upstreams sorted by id
    pub fn ups(&self, j: usize) -> Vec<usize> {
        let mut v: Vec<usize> = self.edges.iter().filter(|e| e.down == j).map(|e| e.up).collect();
        v.sort_by(|a, b| self.jobs[*a].id.cmp(&self.jobs[*b].id));
        v.dedup();
        v
    }
    pub fn downs(&self, j: usize) -> Vec<usize> {
        let mut v: Vec<usize> = self.edges.iter().filter(|e| e.up == j).map(|e| e.down).collect();
        v.sort();
        v.dedup();
        v
    }
    pub fn edge(&self, up: usize, down: usize) -> Option<&Edge> {
        self.edges.iter().find(|e| e.up == up && e.down == down)
    }
    pub fn has_edge_ids(&self, up: &str, down: &str) -> bool {
        match (self.idx(up), self.idx(down)) {
            (Some(u), Some(d)) => self.edge(u, d).is_some(),
            _ => false,
        }
    }
    /// parts of `up` that `down` consumes (sorted)
    pub fn consumed(&self, up: usize, down: usize) -> Vec<String> {
        let e = self.edge(up, down).expect("edge");
        let mut p: Vec<String> = if e.parts.is_empty() {
            self.jobs[up].parts().iter().map(|s| s.to_string()).collect()
        } else {
            e.parts.clone()
        };
        p.sort();
        p
    }
    pub fn topo(&self) -> Vec<usize> {
        let n = self.n();
        let mut indeg = vec![0; n];
        for j in 0..n {
            indeg[j] = self.ups(j).len();
        }
        let mut out = Vec::with_capacity(n);
        let mut avail: Vec<usize> = (0..n).filter(|i| indeg[*i] == 0).collect();
        while let Some(x) = avail.pop() {
            out.push(x);
            for d in self.downs(x) {
                indeg[d] -= 1;
                if indeg[d] == 0 {
                    avail.push(d);
                }
            }
        }
        assert_eq!(out.len(), n, "graph has a cycle");
        out
    }
    /// Ephemeral jobs are relevant iff a non-Ephemeral job depends on them
    /// through Ephemeral jobs only; all other jobs are relevant.
    pub fn relevant(&self) -> Vec<bool> {
        let n = self.n();
        let mut rel = vec![false; n];
        for &j in self.topo().iter().rev() {
            rel[j] = self.jobs[j].kind != Kind::E
                || self
                    .downs(j)
                    .iter()
                    .any(|d| self.jobs[*d].kind != Kind::E || rel[*d]);
        }
        rel
    }
    pub fn ancestors(&self, j: usize) -> BTreeSet<usize> {
        let mut s = BTreeSet::new();
        let mut st = self.ups(j);
        while let Some(x) = st.pop() {
            if s.insert(x) {
                st.extend(self.ups(x));
            }
        }
        s
    }
    pub fn describe(&self) -> String {
        let js: Vec<String> = self
            .jobs
            .iter()
            .map(|j| {
                format!(
                    "{}:{:?}{}{}{}",
                    j.id,
                    j.kind,
                    if j.ignores_inputs { "!" } else { "" },
                    if j.volatile { if j.volatile_last_only { "~last" } else { "~" } } else { "" },
                    if j.split_inputs { "/split" } else { "" }
                )
            })
            .collect();
        let es: Vec<String> = self
            .edges
            .iter()
            .map(|e| {
                format!(
                    "{}->{}{}{}",
                    self.jobs[e.up].id,
                    self.jobs[e.down].id,
                    if e.read { "" } else { "(unread)" },
                    if e.parts.is_empty() { String::new() } else { format!("[{}]", e.parts.join(",")) }
                )
            })
            .collect();
        format!("{} | {}", js.join(" "), es.join(" "))
    }
}

/// the configured comparison (an equivalence on records)
#[derive(Clone, Copy, PartialEq, Eq, Hash, Debug, PartialOrd, Ord, Serialize, Deserialize)]
pub enum Cmp {
    /// string inequality (the test strategy)
    Plain,
    /// ignore the `|...` component (a timestamp)
    Noise,
    /// production-like: compare only the parts the downstream consumes
    /// (`!!!` as downstream: all parts of the upstream), ignore `|...`
    Prod,
    /// not symmetric: unaltered iff the content is the same and the `|t<n>` component did not go
    /// backwards (a result older than the recorded one is suspicious).  Along a chain n only grows,
    /// so asked (recorded, current) it agrees with `Noise`; asked the mirrored question it does not.
    Mono,
    /// not symmetric either, the other way round (like a comparison of modification times): altered
    /// iff the content differs or the current `|t<n>` is newer than the recorded one
    Newer,
    /// depends on the upstream job the question is asked for (as the production strategy does, by job
    /// type): records of Ephemeral upstreams are compared exactly, all others modulo `|...`
    ExactEph,
}

fn stamp(rec: &str) -> i64 {
    rec.rsplit_once("|t").and_then(|(_, n)| n.parse().ok()).unwrap_or(-1)
}

/// naming convention for the input list
#[derive(Clone, Copy, PartialEq, Eq, Hash, Debug, PartialOrd, Ord, Serialize, Deserialize)]
pub enum Conv {
    /// sorted ids of the direct upstream jobs (test strategy)
    JobIds,
    /// sorted names of the consumed outputs (production)
    Parts,
}

#[derive(Clone, Copy, PartialEq, Eq, Hash, Debug, PartialOrd, Ord, Serialize, Deserialize)]
pub enum FailMode {
    /// a failing / interrupted Output job leaves a wrong file behind
    Corrupt,
    /// ... or removes its output
    Remove,
}

pub fn strip(rec: &str) -> &str {
    rec.split('|').next().unwrap()
}

pub fn parse_record(rec: &str) -> BTreeMap<&str, &str> {
    let mut m = BTreeMap::new();
    for kv in strip(rec).split(';') {
        if let Some((k, v)) = kv.split_once('=') {
            m.insert(k, v);
        }
    }
    m
}

/// one evaluation's complete input
#[derive(Clone, Debug, PartialEq, Eq, Hash, Serialize, Deserialize)]
pub struct Cfg {
    pub graph: Graph,
    /// version bit per job (meaningful for Always jobs: "the input changed")
    pub versions: Vec<u8>,
    pub hist: Hist,
    pub disk: Disk,
    /// Some(i): every record reported in this evaluation ends in `|t<i>`
    pub noise: Option<u32>,
    /// evaluation index (value component of volatile jobs)
    pub step: u32,
    pub cmp: Cmp,
    pub conv: Conv,
    pub fail_mode: FailMode,
    /// ranks for the two ordering seams (hooks)
    pub seams: [usize; 2],
}

impl Cfg {
    /// 128-bit fingerprint (two independently keyed 64-bit hashes)
    pub fn fingerprint(&self) -> u128 {
        use std::hash::{Hash, Hasher};
        let mut a = std::collections::hash_map::DefaultHasher::new();
        0xa5u8.hash(&mut a);
        self.hash(&mut a);
        let mut b = std::collections::hash_map::DefaultHasher::new();
        self.hash(&mut b);
        0x5au8.hash(&mut b);
        ((a.finish() as u128) << 64) | b.finish() as u128
    }

    pub fn input_list(&self, j: usize) -> String {
        let g = &self.graph;
        match self.conv {
            Conv::JobIds => {
                let ids: Vec<&str> = g.ups(j).iter().map(|u| &g.jobs[*u].id[..]).collect();
                ids.join("\n")
            }
            Conv::Parts => {
                let mut parts: Vec<String> = Vec::new();
                for u in g.ups(j) {
                    parts.extend(g.consumed(u, j));
                }
                parts.sort();
                parts.join("\n")
            }
        }
    }

    /// is `cur` altered relative to `last`, for the dependency up_id -> down_id
    /// ("!!!" as down_id: the upstream's own record)?
    pub fn altered(&self, up_id: &str, down_id: &str, last: &str, cur: &str) -> bool {
        match self.cmp {
            Cmp::Plain => last != cur,
            Cmp::Noise => strip(last) != strip(cur),
            Cmp::Mono => strip(last) != strip(cur) || stamp(cur) < stamp(last),
            Cmp::Newer => strip(last) != strip(cur) || stamp(cur) > stamp(last),
            Cmp::ExactEph => {
                let exact = self.graph.idx(up_id).map(|u| self.graph.jobs[u].kind == Kind::E).unwrap_or(false);
                if exact {
                    last != cur
                } else {
                    strip(last) != strip(cur)
                }
            }
            Cmp::Prod => {
                let g = &self.graph;
                let parts: Vec<String> = match (g.idx(up_id), g.idx(down_id)) {
                    (Some(u), Some(d)) if g.edge(u, d).is_some() => g.consumed(u, d),
                    _ => up_id.split(":::").map(|s| s.to_string()).collect(),
                };
                let l = parse_record(last);
                let c = parse_record(cur);
                parts.iter().any(|p| match (l.get(&p[..]), c.get(&p[..])) {
                    (Some(a), Some(b)) => a != b,
                    _ => true,
                })
            }
        }
    }

    /// value of every part of job j given the values of the input parts
    /// `inp(up, part) -> value`
    pub fn value(&self, j: usize, inp: &dyn Fn(usize, &str) -> String) -> BTreeMap<String, String> {
        let g = &self.graph;
        let jd = &g.jobs[j];
        let nparts = jd.parts().len();
        let ups = g.ups(j);
        jd.parts()
            .iter()
            .enumerate()
            .map(|(pi, p)| {
                let ver = if jd.kind == Kind::A {
                    format!("@{}", self.versions[j])
                } else if jd.volatile && (!jd.volatile_last_only || pi + 1 == nparts) {
                    format!("#{}", self.step)
                } else {
                    String::new()
                };
                let mut ins: Vec<(String, String)> = Vec::new();
                if !jd.ignores_inputs {
                    for (ui, u) in ups.iter().enumerate() {
                        if !g.edge(*u, j).unwrap().read {
                            continue;
                        }
                        if jd.split_inputs && ui != pi {
                            continue;
                        }
                        if !jd.part_inputs.is_empty() && !jd.part_inputs.get(pi).map(|l| l.iter().any(|x| *x == g.jobs[*u].id)).unwrap_or(false) {
                            continue;
                        }
                        for q in g.consumed(*u, j) {
                            let v = inp(*u, &q);
                            ins.push((q, v));
                        }
                    }
                }
                ins.sort();
                let joined: Vec<String> = ins.into_iter().map(|(_, v)| v).collect();
                (p.to_string(), format!("{}{}({})", p, ver, joined.join(",")))
            })
            .collect()
    }

    pub fn record(&self, val: &BTreeMap<String, String>) -> String {
        let body: Vec<String> = val.iter().map(|(k, v)| format!("{}={}", k, v)).collect();
        let body = body.join(";");
        match self.noise {
            Some(n) => format!("{}|t{}", body, n),
            None => body,
        }
    }

    /// what building the current graph from scratch yields (part -> value)
    pub fn clean(&self) -> Vec<BTreeMap<String, String>> {
        let n = self.graph.n();
        let mut v: Vec<BTreeMap<String, String>> = vec![BTreeMap::new(); n];
        for &j in self.graph.topo().iter() {
            let val = {
                let vr = &v;
                self.value(j, &|u, p| vr[u].get(p).cloned().unwrap_or_else(|| format!("NOPART<{}>", p)))
            };
            v[j] = val;
        }
        v
    }

    pub fn present(&self, j: usize) -> bool {
        self.graph.jobs[j].parts().iter().all(|p| self.disk.contains_key(*p))
    }

    /// the record describing what `j` last consumed from `u`: `H[u!!!j]`, or
    /// for a renamed multi-output upstream the record under the older id that
    /// shares the most parts with `u`.  Err(()) = ambiguous (tie).
    pub fn edge_last(&self, u: usize, j: usize) -> Result<Option<&String>, ()> {
        let g = &self.graph;
        let uid = &g.jobs[u].id;
        let jid = &g.jobs[j].id;
        if let Some(v) = self.hist.get(&format!("{}!!!{}", uid, jid)) {
            return Ok(Some(v));
        }
        let my: BTreeSet<&str> = uid.split(":::").collect();
        let suffix = format!("!!!{}", jid);
        let mut best: Vec<(&String, usize)> = Vec::new();
        for (k, _) in self.hist.iter() {
            if k.ends_with(&suffix) {
                let old = &k[..k.len() - suffix.len()];
                if old.is_empty() || old.contains("!!!") {
                    continue;
                }
                let ov = old.split(":::").filter(|p| my.contains(p)).count();
                if ov > 0 {
                    best.push((k, ov));
                }
            }
        }
        if best.is_empty() {
            return Ok(None);
        }
        let m = best.iter().map(|b| b.1).max().unwrap();
        let top: Vec<&(&String, usize)> = best.iter().filter(|b| b.1 == m).collect();
        if top.len() > 1 {
            return Err(());
        }
        Ok(self.hist.get(top[0].0))
    }
}

pub struct Reference {
    pub relevant: Vec<bool>,
    pub uptodate: Vec<bool>,
    pub exec: Vec<bool>,
    /// record each job currently has / will report (None: none)
    pub cur_rec: Vec<Option<String>>,
    /// a renamed-upstream lookup was ambiguous: uptodate/exec are not defined
    pub ambiguous: bool,
}

/// what is up to date and what a failure-free evaluation must execute
pub fn reference(cfg: &Cfg) -> Reference {
    let g = &cfg.graph;
    let n = g.n();
    let rel = g.relevant();
    let mut uptodate = vec![false; n];
    let mut ambiguous = false;
    let mut cur_rec: Vec<Option<String>> = vec![None; n];
    let mut cur_val: Vec<BTreeMap<String, String>> = vec![BTreeMap::new(); n];
    let topo = g.topo();
    for &j in topo.iter() {
        let id = &g.jobs[j].id;
        let ups = g.ups(j);
        let has_rec = cfg.hist.contains_key(id) && cfg.hist.get(&format!("{}!!!", id)) == Some(&cfg.input_list(j));
        let mut edges_ok = true;
        for u in ups.iter() {
            match (cfg.edge_last(*u, j), &cur_rec[*u]) {
                (Ok(Some(l)), Some(c)) => {
                    if cfg.altered(&g.jobs[*u].id, id, l, c) {
                        edges_ok = false;
                    }
                }
                (Err(()), _) => {
                    ambiguous = true;
                    edges_ok = false;
                }
                _ => edges_ok = false,
            }
        }
        let present_ok = g.jobs[j].kind != Kind::O || cfg.present(j);
        uptodate[j] = g.jobs[j].kind != Kind::A && has_rec && edges_ok && present_ok;
        if g.jobs[j].kind == Kind::A || (!uptodate[j] && rel[j]) {
            let v = {
                let cv = &cur_val;
                cfg.value(j, &|u, p| cv[u].get(p).cloned().unwrap_or_else(|| format!("NONE<{}>", p)))
            };
            cur_rec[j] = Some(cfg.record(&v));
            cur_val[j] = v;
        } else {
            let r = cfg.hist.get(id).cloned();
            if let Some(r) = &r {
                cur_val[j] = parse_record(r).into_iter().map(|(k, v)| (k.to_string(), v.to_string())).collect();
            }
            cur_rec[j] = r;
        }
    }
    let mut exec = vec![false; n];
    for &j in topo.iter().rev() {
        exec[j] = g.jobs[j].kind == Kind::A
            || (!uptodate[j] && rel[j])
            || (g.jobs[j].kind == Kind::E && rel[j] && uptodate[j] && g.downs(j).iter().any(|d| exec[*d]));
    }
    Reference {
        relevant: rel,
        uptodate,
        exec,
        cur_rec,
        ambiguous,
    }
}

/// `a`: the earlier history (recorded side of the comparison), `b`: the later one
pub fn hist_equiv(cfg: &Cfg, a: &Hist, b: &Hist) -> bool {
    a.len() == b.len()
        && a.iter().all(|(k, v)| match b.get(k) {
            Some(w) => {
                if v == w {
                    return true;
                }
                match k.split_once("!!!") {
                    None => !cfg.altered(k, "!!!", v, w),
                    Some((_, "")) => false, // input lists compare textually
                    Some((u, d)) => !cfg.altered(u, d, v, w),
                }
            }
            None => false,
        })
}

pub fn mk_graph(spec: &[(&str, Kind)], edges: &[(&str, &str)]) -> Graph {
    let jobs: Vec<JobDef> = spec.iter().map(|(i, k)| JobDef::new(i, *k)).collect();
    let e = edges
        .iter()
        .map(|(a, b)| Edge {
            up: jobs.iter().position(|j| j.id == *a).unwrap(),
            down: jobs.iter().position(|j| j.id == *b).unwrap(),
            read: true,
            parts: vec![],
        })
        .collect();
    Graph { jobs, edges: e }
}
