//! Known findings, replay files, evidence, verdict.
use crate::chain::*;
use crate::monitors::Exercised;
use serde::{Deserialize, Serialize};
use std::collections::BTreeMap;
use std::path::{Path, PathBuf};

#[derive(Clone, Debug, Serialize, Deserialize)]
pub struct KnownFinding {
    pub id: String,
    pub property: String,
    /// monitor clause that fires
    pub clause: String,
    /// facts of the counter-example that identify this finding (all must match)
    #[serde(default)]
    pub tags: BTreeMap<String, String>,
    /// "open": suppresses matching violations (KNOWN-FINDING line); "fixed": suppresses nothing
    pub status: String,
    #[serde(default)]
    pub commit: Option<String>,
    pub what_fails: String,
}

pub fn verif_dir() -> PathBuf {
    std::env::var("VERIF_DIR").map(PathBuf::from).unwrap_or_else(|_| PathBuf::from("/verif"))
}

pub fn load_known() -> Vec<KnownFinding> {
    let p = verif_dir().join("known_findings.json");
    match std::fs::read_to_string(&p) {
        Ok(s) => serde_json::from_str(&s).unwrap_or_else(|e| {
            eprintln!("MACHINERY: cannot parse {}: {}", p.display(), e);
            std::process::exit(2)
        }),
        Err(_) => vec![],
    }
}

pub fn matches(k: &KnownFinding, prop: &str, clause: &str, tags: &BTreeMap<String, String>) -> bool {
    k.status == "open" && k.property == prop && k.clause == clause && k.tags.iter().all(|(a, b)| tags.get(a) == Some(b))
}

#[derive(Clone, Debug, Serialize, Deserialize)]
pub struct ReplayFile {
    pub report: Report,
    pub spec: Spec,
}

pub struct Verdict {
    pub violations: Vec<(String, PathBuf)>,
    pub known: Vec<String>,
    pub machinery_errors: Vec<String>,
}

/// turn the collected groups of one property into VIOLATION / KNOWN-FINDING lines
pub fn judge(prop: &str, coll: &Collector, specs: &BTreeMap<String, Spec>, out_dir: &Path) -> Verdict {
    let known = load_known();
    let mut v = Verdict {
        violations: vec![],
        known: vec![],
        machinery_errors: vec![],
    };
    let mut known_hit: BTreeMap<String, u64> = BTreeMap::new();
    let mut n = 0;
    for ((p, clause, _sig), (count, rep)) in coll.groups.iter() {
        if p != prop {
            continue;
        }
        if let Some(k) = known.iter().find(|k| matches(k, p, clause, &rep.tags)) {
            *known_hit.entry(k.id.clone()).or_insert(0) += count;
            continue;
        }
        // unknown: validate by two independent stateless replays before reporting
        let spec = match specs.get(&rep.family) {
            Some(s) => s.clone(),
            None => {
                v.machinery_errors.push(format!("no spec for family {}", rep.family));
                continue;
            }
        };
        let mut ok = true;
        for round in 0..2 {
            match replay_report(rep, &spec) {
                Ok(viol) => {
                    if !viol.iter().any(|(x, _, _)| x.prop == p && x.clause == clause) {
                        v.machinery_errors.push(format!(
                            "replay {} of {} {} did not reproduce the violation (family {}, universe {})",
                            round, p, clause, rep.family, rep.universe
                        ));
                        ok = false;
                    }
                }
                Err(e) => {
                    v.machinery_errors.push(format!("replay of {} {} failed: {}", p, clause, e.0));
                    ok = false;
                }
            }
        }
        if !ok {
            continue;
        }
        std::fs::create_dir_all(out_dir).ok();
        let path = out_dir.join(format!("{}_{}_{}.json", p, clause, n));
        n += 1;
        let rf = ReplayFile {
            report: rep.clone(),
            spec,
        };
        std::fs::write(&path, serde_json::to_string_pretty(&rf).unwrap()).ok();
        eprintln!("  {} x{}: {}", clause, count, rep.message.chars().take(400).collect::<String>());
        v.violations.push((format!("{} ({} occurrences): {}", clause, count, rep.message.chars().take(300).collect::<String>()), path));
    }
    for k in known.iter().filter(|k| k.status == "open" && k.property == prop) {
        if let Some(c) = known_hit.get(&k.id) {
            v.known.push(format!("KNOWN-FINDING: property={} {} {} [{} occurrences in this run]", prop, k.id, k.what_fails, c));
        }
    }
    v
}

pub struct EvidenceInput<'a> {
    pub prop: &'a str,
    pub tier: &'a str,
    pub level: &'a str,
    pub seed: i64,
    pub wall_s: f64,
    pub counters: &'a Counters,
    pub ex: &'a Exercised,
    pub samples: Vec<serde_json::Value>,
    pub bounds_completed: Vec<String>,
    pub caps_hit: Vec<String>,
    pub violations: usize,
    pub known_findings: Vec<String>,
    pub rule: String,
    pub exhaustive: bool,
    pub assumptions: Vec<String>,
    pub distinct_nontrivial: u64,
    pub extra: serde_json::Value,
}

pub fn write_evidence(e: EvidenceInput) {
    // VERIF_EVIDENCE_DIR: trial runs against seeded changes must not overwrite the real evidence
    let dir = std::env::var("VERIF_EVIDENCE_DIR").map(PathBuf::from).unwrap_or_else(|_| verif_dir().join("evidence"));
    std::fs::create_dir_all(&dir).ok();
    let c = e.counters;
    let mut samples = e.samples;
    if samples.is_empty() {
        samples.push(serde_json::json!({"note": "no multi-outcome configuration sampled"}));
    }
    let j = serde_json::json!({
        "property_id": e.prop,
        "tier": e.tier,
        "seed": e.seed,
        "level": e.level,
        "coverage": {
            "evaluations": c.configurations + c.followup_evaluations + c.order_variants + c.twin_pairs,
            "distinct_nontrivial": e.distinct_nontrivial,
            "rule": e.rule,
            "samples": samples,
            "states": c.states,
            "transitions": c.transitions,
            "traces_validated_against_impl": c.replays_validated,
            "exhaustive": e.exhaustive,
            "configurations": c.configurations,
            "terminal_states": c.terminals,
            "distinct_terminal_outcomes": c.distinct_outcomes,
            "interrupted_terminals": c.interrupted_terminals,
            "worlds": c.worlds,
            "followup_evaluations": c.followup_evaluations,
            "declaration_order_and_seam_variants": c.order_variants,
            "twin_pairs": c.twin_pairs,
            "illegal_calls_probed": e.ex.m.get("C20.illegal-call").copied().unwrap_or(0),
            "max_events_in_one_evaluation": c.max_events,
            "max_chain_depth_completed": c.max_chain_depth,
            "paths_ended_by_engine_error": c.dead_paths,
            "configs_where_seam0_had_choice": c.seam0_configs,
            "configs_where_seam1_had_choice": c.seam1_configs,
            "configs_with_ambiguous_reference": c.ambiguous_configs,
            "monitor_clauses_exercised": e.ex.m,
            "bounds_completed": e.bounds_completed,
            "caps_hit": e.caps_hit,
            "known_findings_seen": e.known_findings,
            "extra": e.extra,
        },
        "assumptions": e.assumptions,
        "wall_s": e.wall_s,
        "violations": e.violations,
    });
    let p = dir.join(format!("{}.json", e.prop));
    std::fs::write(&p, serde_json::to_string_pretty(&j).unwrap()).unwrap_or_else(|err| {
        eprintln!("MACHINERY: cannot write {}: {}", p.display(), err);
        std::process::exit(2)
    });
}
