//! Universes (what a chain step may choose from).
use crate::chain::Universe;
use crate::model::*;

const IDS: [&str; 6] = ["a", "b", "c", "d", "e", "f"];
const KINDS: [Kind; 3] = [Kind::A, Kind::O, Kind::E];

fn kind_label(ks: &[Kind]) -> String {
    ks.iter().map(|k| format!("{:?}", k)).collect::<Vec<_>>().join("")
}

/// sub-configurations of a slot graph: every node subset, every subset of the
/// edges among the present nodes
pub fn sub_graphs(u: &Graph) -> Vec<Graph> {
    let n = u.n();
    let mut out = Vec::new();
    for ns in 0..(1usize << n) {
        let present: Vec<usize> = (0..n).filter(|i| ns & (1 << i) != 0).collect();
        let cand: Vec<&Edge> = u.edges.iter().filter(|e| present.contains(&e.up) && present.contains(&e.down)).collect();
        for es in 0..(1usize << cand.len()) {
            let jobs: Vec<JobDef> = present.iter().map(|i| u.jobs[*i].clone()).collect();
            let edges: Vec<Edge> = cand
                .iter()
                .enumerate()
                .filter(|(i, _)| es & (1 << i) != 0)
                .map(|(_, e)| Edge {
                    up: present.iter().position(|x| *x == e.up).unwrap(),
                    down: present.iter().position(|x| *x == e.down).unwrap(),
                    read: e.read,
                    parts: e.parts.clone(),
                })
                .collect();
            out.push(Graph { jobs, edges });
        }
    }
    // simplest first
    out.sort_by_key(|g| (g.n(), g.edges.len()));
    out
}

fn full_forward(ks: &[Kind]) -> Graph {
    let n = ks.len();
    let jobs: Vec<JobDef> = (0..n).map(|i| JobDef::new(IDS[i], ks[i])).collect();
    let mut edges = Vec::new();
    for a in 0..n {
        for b in (a + 1)..n {
            edges.push(Edge {
                up: a,
                down: b,
                read: true,
                parts: vec![],
            });
        }
    }
    Graph { jobs, edges }
}

pub fn kind_vectors(n: usize) -> Vec<Vec<Kind>> {
    (0..3usize.pow(n as u32)).map(|kv| (0..n).map(|i| KINDS[(kv / 3usize.pow(i as u32)) % 3]).collect()).collect()
}

/// all graphs over n slots: one universe per kind vector
pub fn slots(n: usize) -> Vec<Universe> {
    kind_vectors(n)
        .into_iter()
        .map(|ks| Universe {
            label: format!("slots{}:{}", n, kind_label(&ks)),
            graphs: sub_graphs(&full_forward(&ks)),
        })
        .collect()
}

/// only the full n-slot graphs (every edge subset, all nodes present)
pub fn slots_full_only(n: usize) -> Vec<Universe> {
    kind_vectors(n)
        .into_iter()
        .map(|ks| {
            let u = full_forward(&ks);
            Universe {
                label: format!("full{}:{}", n, kind_label(&ks)),
                graphs: sub_graphs(&u).into_iter().filter(|g| g.n() == n).collect(),
            }
        })
        .collect()
}

/// slots x every non-empty "ignores its inputs" mask over non-root... (any) jobs
pub fn slots_ignore(n: usize) -> Vec<Universe> {
    let mut out = Vec::new();
    for ks in kind_vectors(n) {
        for m in 1..(1usize << n) {
            let mut u = full_forward(&ks);
            // slot 0 never has inputs: masks that only differ there are redundant
            if m & 1 != 0 {
                continue;
            }
            for j in 0..n {
                u.jobs[j].ignores_inputs = m & (1 << j) != 0;
            }
            out.push(Universe {
                label: format!("ignore{}:{}:{:b}", n, kind_label(&ks), m),
                graphs: sub_graphs(&u),
            });
        }
    }
    out
}

/// slots x every single unread edge (per-edge ignore masks)
pub fn slots_unread_edge(n: usize) -> Vec<Universe> {
    let mut out = Vec::new();
    for ks in kind_vectors(n) {
        let base = full_forward(&ks);
        for ei in 0..base.edges.len() {
            let mut u = base.clone();
            u.edges[ei].read = false;
            out.push(Universe {
                label: format!("unread{}:{}:{}", n, kind_label(&ks), ei),
                graphs: sub_graphs(&u),
            });
        }
    }
    out
}

/// slots with exactly one volatile Ephemeral (C16 family)
pub fn slots_volatile(n: usize) -> Vec<Universe> {
    let mut out = Vec::new();
    for ks in kind_vectors(n) {
        for j in 0..n {
            if ks[j] == Kind::E {
                let mut u = full_forward(&ks);
                u.jobs[j].volatile = true;
                out.push(Universe {
                    label: format!("volatile{}:{}:{}", n, kind_label(&ks), j),
                    graphs: sub_graphs(&u),
                });
            }
        }
    }
    out
}

/// multi-output job gaining / losing outputs (its id changes)
pub fn rename(with_y: bool, m_kind: Kind) -> Vec<Universe> {
    rename_opts(with_y, m_kind, true)
}

pub fn rename_opts(with_y: bool, m_kind: Kind, optional_x_edge: bool) -> Vec<Universe> {
    let mut graphs = Vec::new();
    for m_id in ["p", "p:::q", "q"] {
        for has_d in [true, false] {
            for has_c in [false, true] {
                for has_y in if with_y { vec![false, true] } else { vec![false] } {
                    for x_edge in if optional_x_edge { vec![true, false] } else { vec![true] } {
                        let mut jobs = vec![JobDef::new("x", Kind::A), JobDef::new(m_id, m_kind)];
                        let mut edges = Vec::new();
                        if x_edge {
                            edges.push(Edge {
                                up: 0,
                                down: 1,
                                read: true,
                                parts: vec![],
                            });
                        }
                        let m_has = |p: &str| m_id.split(":::").any(|x| x == p);
                        if has_d {
                            if !m_has("p") {
                                continue;
                            }
                            jobs.push(JobDef::new("d", Kind::O));
                            let di = jobs.len() - 1;
                            edges.push(Edge {
                                up: 1,
                                down: di,
                                read: true,
                                parts: vec!["p".into()],
                            });
                            if has_y {
                                jobs.push(JobDef::new("y", Kind::A));
                                let yi = jobs.len() - 1;
                                edges.push(Edge {
                                    up: yi,
                                    down: di,
                                    read: true,
                                    parts: vec![],
                                });
                            }
                        } else if has_y {
                            continue;
                        }
                        if has_c {
                            if !m_has("q") {
                                continue;
                            }
                            jobs.push(JobDef::new("c", Kind::O));
                            let ci = jobs.len() - 1;
                            edges.push(Edge {
                                up: 1,
                                down: ci,
                                read: true,
                                parts: vec!["q".into()],
                            });
                        }
                        graphs.push(Graph { jobs, edges });
                    }
                }
            }
        }
    }
    graphs.sort_by_key(|g| (g.n(), g.edges.len()));
    vec![Universe {
        label: format!("rename:{:?}{}{}", m_kind, if with_y { "+y" } else { "" }, if optional_x_edge { "+x-edge-optional" } else { "" }),
        graphs,
    }]
}

/// a named shape and its 1-edit neighbours (one edge or one node removed)
fn shape(label: &str, spec: &[(&str, Kind)], edges: &[(&str, &str)], neighbours: bool) -> Universe {
    let g = mk_graph(spec, edges);
    let mut graphs = vec![g.clone()];
    if neighbours {
        for ei in 0..g.edges.len() {
            let mut h = g.clone();
            h.edges.remove(ei);
            graphs.push(h);
        }
        for ni in 0..g.n() {
            let present: Vec<usize> = (0..g.n()).filter(|i| *i != ni).collect();
            let jobs: Vec<JobDef> = present.iter().map(|i| g.jobs[*i].clone()).collect();
            let edges: Vec<Edge> = g
                .edges
                .iter()
                .filter(|e| e.up != ni && e.down != ni)
                .map(|e| Edge {
                    up: present.iter().position(|x| *x == e.up).unwrap(),
                    down: present.iter().position(|x| *x == e.down).unwrap(),
                    read: e.read,
                    parts: e.parts.clone(),
                })
                .collect();
            graphs.push(Graph { jobs, edges });
        }
    }
    Universe {
        label: label.to_string(),
        graphs,
    }
}

/// directed 4-6 job shapes the properties' own hints point at
pub fn shapes(neighbours: bool) -> Vec<Universe> {
    use Kind::*;
    vec![
        // an Ephemeral two levels above a consumer, with a late invalidation from the side
        shape("E-E-O+A", &[("e1", E), ("e2", E), ("x", A), ("o", O)], &[("e1", "e2"), ("e2", "o"), ("x", "o")], neighbours),
        shape(
            "E-E-E-O+A",
            &[("e1", E), ("e2", E), ("e3", E), ("x", A), ("o", O)],
            &[("e1", "e2"), ("e2", "e3"), ("e3", "o"), ("x", "o")],
            neighbours,
        ),
        shape(
            "E-E-O+A-mid",
            &[("e1", E), ("x", A), ("e2", E), ("o", O)],
            &[("e1", "e2"), ("x", "e2"), ("e2", "o")],
            neighbours,
        ),
        // an Ephemeral is judged unnecessary because all its direct downstreams validate, then a
        // consumer two levels down is invalidated late
        shape(
            "late-requirement",
            &[("e1", E), ("e2", E), ("o1", O), ("o2", O), ("x", A)],
            &[("e1", "e2"), ("e1", "o1"), ("e2", "o2"), ("x", "o2")],
            neighbours,
        ),
        // finding F7: skipped Output between two Ephemerals
        shape(
            "E-O-E-O",
            &[("a", E), ("b", O), ("c", E), ("d", O)],
            &[("a", "b"), ("a", "c"), ("a", "d"), ("b", "c"), ("b", "d"), ("c", "d")],
            neighbours,
        ),
        shape(
            "E-O-E-O-O",
            &[("a", E), ("b", O), ("c", E), ("d", O), ("f", O)],
            &[("a", "b"), ("b", "c"), ("c", "d"), ("a", "f")],
            neighbours,
        ),
        // diamonds
        shape(
            "diamond-AEEO",
            &[("r", A), ("l", E), ("m", E), ("s", O)],
            &[("r", "l"), ("r", "m"), ("l", "s"), ("m", "s")],
            neighbours,
        ),
        shape(
            "double-diamond",
            &[("r", A), ("l", E), ("m", O), ("j", E), ("s", O)],
            &[("r", "l"), ("r", "m"), ("l", "j"), ("m", "j"), ("j", "s"), ("l", "s")],
            neighbours,
        ),
        shape(
            "fan-E-to-OOO",
            &[("x", A), ("e", E), ("o1", O), ("o2", O), ("o3", O)],
            &[("x", "e"), ("e", "o1"), ("e", "o2"), ("e", "o3")],
            neighbours,
        ),
        shape(
            "two-E-into-two-O",
            &[("e1", E), ("e2", E), ("o1", O), ("o2", O), ("x", A)],
            &[("e1", "o1"), ("e1", "o2"), ("e2", "o1"), ("e2", "o2"), ("x", "e1")],
            neighbours,
        ),
    ]
}

/// "late requirement" gadget `x:Always -> n:Output <- e0:Ephemeral` with `free` further slots
/// below it: every kind vector for the free slots, every subset of the edges
/// {e0 -> slot, x -> slot, slot -> later slot}.  When x changes, e0 is first judged
/// unnecessary (its consumers validate), then required late; whatever hangs below e0 has by then
/// been skipped, offered or started.  One universe per graph: a chain step can change inputs and
/// delete outputs but not the graph.
pub fn late_gadget(free: usize, x_edges: bool) -> Vec<Universe> {
    late_gadget_full(free, x_edges, true, None, free <= 2)
}

/// `below_e0_only`: keep only graphs in which every free slot hangs below e0; `kinds`: restrict the
/// free slots to one kind vector.  Without the filter the family also contains jobs that depend on
/// x only: paths of different length from x to a job that e0 feeds as well (a failure of x travels
/// along them wave by wave while e0's reconsideration of the same job is already queued).
pub fn late_gadget_opts(free: usize, x_edges: bool, below_e0_only: bool, kinds: Option<Vec<Kind>>) -> Vec<Universe> {
    late_gadget_full(free, x_edges, below_e0_only, kinds, false)
}

/// `n_edges`: n (the late-invalidated consumer itself) may feed the slots as well: a failure of e0 then
/// reaches a slot twice, along paths of different length
pub fn late_gadget_full(free: usize, x_edges: bool, below_e0_only: bool, kinds: Option<Vec<Kind>>, n_edges: bool) -> Vec<Universe> {
    let names = ["s", "t", "v", "w"];
    let mut out = Vec::new();
    for ks in kind_vectors(free) {
        if let Some(k) = &kinds {
            if *k != ks {
                continue;
            }
        }
        // candidate edges: (up, down) over indexes 0=x 1=n 2=e0 3.. = free slots
        let mut cand: Vec<(usize, usize)> = Vec::new();
        for i in 0..free {
            cand.push((2, 3 + i));
            if x_edges {
                cand.push((0, 3 + i));
            }
            if n_edges {
                cand.push((1, 3 + i));
            }
            for j in (i + 1)..free {
                cand.push((3 + i, 3 + j));
            }
        }
        for es in 0..(1usize << cand.len()) {
            let mut jobs = vec![JobDef::new("x", Kind::A), JobDef::new("n", Kind::O), JobDef::new("e0", Kind::E)];
            for i in 0..free {
                jobs.push(JobDef::new(names[i], ks[i]));
            }
            let mut edges = vec![
                Edge { up: 0, down: 1, read: true, parts: vec![] },
                Edge { up: 2, down: 1, read: true, parts: vec![] },
            ];
            let mut touched = vec![false; free];
            let mut below_e0 = vec![false; free];
            for (k, (u, d)) in cand.iter().enumerate() {
                if es & (1 << k) != 0 {
                    edges.push(Edge { up: *u, down: *d, read: true, parts: vec![] });
                    if *u >= 3 {
                        touched[*u - 3] = true;
                    }
                    touched[*d - 3] = true;
                    if *u == 2 || (*u >= 3 && below_e0[*u - 3]) {
                        below_e0[*d - 3] = true;
                    }
                }
            }
            // every free slot hangs (directly or not) below e0: anything else is a smaller gadget
            // next to an unrelated job, which the slot families cover
            if below_e0_only && !below_e0.iter().all(|b| *b) {
                continue;
            }
            // every free slot is connected to something, and e0 feeds at least one of them
            if !below_e0_only && (!touched.iter().all(|b| *b) || !below_e0.iter().any(|b| *b)) {
                continue;
            }
            let g = Graph { jobs, edges };
            out.push(Universe {
                label: format!("late{}{}{}{}:{}:{:b}", free, if x_edges { "x" } else { "" }, if below_e0_only { "" } else { "u" }, if n_edges { "n" } else { "" }, kind_label(&ks), es),
                graphs: vec![g],
            });
        }
    }
    out
}

/// directed 6-7 job shapes (no neighbours: the second evaluation changes inputs and deletes outputs only)
pub fn big_shapes() -> Vec<Universe> {
    use Kind::*;
    vec![
        // two late-requirement gadgets in series through a skipped Output and a second Ephemeral
        shape(
            "late-late-7",
            &[("x1", A), ("e", E), ("d1", O), ("o", O), ("e2", E), ("x2", A), ("d2", O)],
            &[("x1", "d1"), ("e", "d1"), ("e", "o"), ("o", "e2"), ("e2", "d2"), ("x2", "d2")],
            false,
        ),
        shape(
            "late-chain-6",
            &[("x1", A), ("e", E), ("d1", O), ("o", O), ("e2", E), ("d2", O)],
            &[("x1", "d1"), ("e", "d1"), ("e", "o"), ("o", "e2"), ("e2", "d2"), ("d1", "d2")],
            false,
        ),
        // two Ephemerals in a row in front of a late-invalidated consumer, second consumer behind a skipped Output
        shape(
            "late-EE-6",
            &[("x", A), ("e0", E), ("e", E), ("d1", O), ("o", O), ("d2", O)],
            &[("e0", "e"), ("e", "d1"), ("x", "d1"), ("e", "o"), ("o", "d2")],
            false,
        ),
        // a late failure racing along a short and a long path to the same job (declaration order of the
        // nodes and edges as in the independent demonstration of seeded change C07-B-r3)
        Universe {
            label: "wave-race-8".into(),
            graphs: vec![{
                let jobs: Vec<JobDef> = [("r", A), ("e0", E), ("dx", O), ("d", O), ("m", O), ("u", O), ("e1", E), ("d2", O)].iter().map(|(i, k)| JobDef::new(i, *k)).collect();
                let e = |u: usize, d: usize| Edge { up: u, down: d, read: true, parts: vec![] };
                // dx<-r, dx<-e0, d<-e0, m<-e0, d<-dx, u<-m, e1<-u, d<-e1, d2<-e1
                Graph { jobs, edges: vec![e(0, 2), e(1, 2), e(1, 3), e(1, 4), e(2, 3), e(4, 5), e(5, 6), e(6, 3), e(6, 7)] }
            }],
        },
        // a late-required Ephemeral feeding two gadgets
        shape(
            "late-fan-7",
            &[("x1", A), ("x2", A), ("e", E), ("d1", O), ("d2", O), ("o", O), ("d3", O)],
            &[("x1", "d1"), ("e", "d1"), ("x2", "d2"), ("e", "d2"), ("e", "o"), ("o", "d3")],
            false,
        ),
    ]
}

/// two late-requirement gadgets `x1:Always -> d1:Output`, `x2:Always -> d2:Output` and two
/// Ephemerals above them: every subset of the edges {e1->e2, e1->d1, e1->d2, e2->d1, e2->d2,
/// d1->e2, d1->d2} in which both Ephemerals have a consumer.  With two independent inputs the
/// order in which they finish decides which Ephemeral is judged (un)necessary first.
pub fn late_pair() -> Vec<Universe> {
    let ids = [("x1", Kind::A), ("x2", Kind::A), ("e1", Kind::E), ("e2", Kind::E), ("d1", Kind::O), ("d2", Kind::O)];
    let cand = [(2usize, 3usize), (2, 4), (2, 5), (3, 4), (3, 5), (4, 3), (4, 5)];
    let mut out = Vec::new();
    for es in 0..(1usize << cand.len()) {
        let on = |k: usize| es & (1 << k) != 0;
        // d1 -> e2 together with e2 -> d1 would be a cycle
        if on(3) && on(5) {
            continue;
        }
        if !(on(0) || on(1) || on(2)) || !(on(3) || on(4)) {
            continue;
        }
        let jobs: Vec<JobDef> = ids.iter().map(|(i, k)| JobDef::new(i, *k)).collect();
        let mut edges = vec![
            Edge { up: 0, down: 4, read: true, parts: vec![] },
            Edge { up: 1, down: 5, read: true, parts: vec![] },
        ];
        for (k, (u, d)) in cand.iter().enumerate() {
            if on(k) {
                edges.push(Edge { up: *u, down: *d, read: true, parts: vec![] });
            }
        }
        out.push(Universe {
            label: format!("latepair:{:07b}", es),
            graphs: vec![Graph { jobs, edges }],
        });
    }
    out
}

/// the late-requirement gadget with a volatile e0 (C16: a validated Ephemeral that is required late and
/// then reports a changed output while jobs below it were already skipped or offered)
pub fn late_gadget_volatile(free: usize, x_edges: bool) -> Vec<Universe> {
    late_gadget(free, x_edges)
        .into_iter()
        .map(|mut u| {
            for g in u.graphs.iter_mut() {
                g.jobs[2].volatile = true;
            }
            u.label = format!("{}:volatile", u.label);
            u
        })
        .collect()
}

/// chains `c0 -> c1 -> ... -> c(k-1) -> z:Output` of k = 2..=maxk inner jobs, every inner job
/// Ephemeral or Output (all 2^k vectors), with one Always job `x` feeding any single position (or the
/// sink): requirements and invalidations that have to travel along runs of Ephemerals of every
/// length up to maxk, arising at either end or in the middle.
pub fn chains(maxk: usize) -> Vec<Universe> {
    let mut out = Vec::new();
    for k in 2..=maxk {
        for kv in 0..(1usize << k) {
            for pos in 0..=k {
                let mut jobs: Vec<JobDef> = (0..k).map(|i| JobDef::new(&format!("c{}", i), if kv & (1 << i) != 0 { Kind::O } else { Kind::E })).collect();
                jobs.push(JobDef::new("z", Kind::O));
                jobs.push(JobDef::new("x", Kind::A));
                let mut edges: Vec<Edge> = (0..k).map(|i| Edge { up: i, down: i + 1, read: true, parts: vec![] }).collect();
                edges.push(Edge { up: k + 1, down: pos, read: true, parts: vec![] });
                out.push(Universe {
                    label: format!("chain{}:{:0w$b}:x->{}", k, kv, pos, w = k),
                    graphs: vec![Graph { jobs, edges }],
                });
            }
        }
    }
    out
}

/// the unfiltered 6-job late-requirement family with Output / Ephemeral free slots only
pub fn late3xu_oe() -> Vec<Universe> {
    late_gadget_opts(3, true, false, None).into_iter().filter(|u| !u.label.split(':').nth(1).unwrap_or("").contains('A')).collect()
}

/// trees of Ephemerals: `r:E -> c1:E -> o1:O`, `r -> c2:E -> o2:O`, one Always `x` feeding one of
/// o1 / o2 / c1 / c2, optionally `c1 -> c2` and `r -> o1`.  Whether r is needed is decided by looking
/// *through* its validated Ephemeral children, in declaration order, possibly late.
pub fn eph_trees() -> Vec<Universe> {
    let mut out = Vec::new();
    for cross in [false, true] {
        for direct in [false, true] {
            for target in [3usize, 4, 1, 2] {
                let jobs = vec![
                    JobDef::new("r", Kind::E),
                    JobDef::new("c1", Kind::E),
                    JobDef::new("c2", Kind::E),
                    JobDef::new("o1", Kind::O),
                    JobDef::new("o2", Kind::O),
                    JobDef::new("x", Kind::A),
                ];
                let mut edges = vec![(0usize, 1usize), (0, 2), (1, 3), (2, 4)];
                if cross {
                    edges.push((1, 2));
                }
                if direct {
                    edges.push((0, 3));
                }
                edges.push((5, target));
                let edges = edges.into_iter().map(|(u, d)| Edge { up: u, down: d, read: true, parts: vec![] }).collect();
                out.push(Universe {
                    label: format!("ephtree:{}{}:x->{}", if cross { "c" } else { "-" }, if direct { "d" } else { "-" }, target),
                    graphs: vec![Graph { jobs, edges }],
                });
            }
        }
    }
    out
}

/// the same with three Ephemeral children (8 jobs): every subset of the forward cross edges among the
/// children, x feeding any child or output
pub fn eph_trees3() -> Vec<Universe> {
    let mut out = Vec::new();
    let cross = [(1usize, 2usize), (1, 3), (2, 3)];
    for cs in 0..8usize {
        for target in 1..=6usize {
            let jobs = vec![
                JobDef::new("r", Kind::E),
                JobDef::new("c1", Kind::E),
                JobDef::new("c2", Kind::E),
                JobDef::new("c3", Kind::E),
                JobDef::new("o1", Kind::O),
                JobDef::new("o2", Kind::O),
                JobDef::new("o3", Kind::O),
                JobDef::new("x", Kind::A),
            ];
            let mut edges = vec![(0usize, 1usize), (0, 2), (0, 3), (1, 4), (2, 5), (3, 6)];
            for (k, e) in cross.iter().enumerate() {
                if cs & (1 << k) != 0 {
                    edges.push(*e);
                }
            }
            edges.push((7, target));
            let edges = edges.into_iter().map(|(u, d)| Edge { up: u, down: d, read: true, parts: vec![] }).collect();
            out.push(Universe {
                label: format!("ephtree3:{:03b}:x->{}", cs, target),
                graphs: vec![Graph { jobs, edges }],
            });
        }
    }
    out
}

/// add to every single-graph universe the graphs with one of its free slots (index >= 3) absent, so
/// that a chain step can add or remove that job (a *new* consumer has no link records yet)
pub fn with_slot_removals(us: Vec<Universe>) -> Vec<Universe> {
    us.into_iter()
        .map(|mut u| {
            let g = u.graphs[0].clone();
            for ni in 3..g.n() {
                let present: Vec<usize> = (0..g.n()).filter(|i| *i != ni).collect();
                let jobs: Vec<JobDef> = present.iter().map(|i| g.jobs[*i].clone()).collect();
                let edges: Vec<Edge> = g
                    .edges
                    .iter()
                    .filter(|e| e.up != ni && e.down != ni)
                    .map(|e| Edge {
                        up: present.iter().position(|x| *x == e.up).unwrap(),
                        down: present.iter().position(|x| *x == e.down).unwrap(),
                        read: e.read,
                        parts: e.parts.clone(),
                    })
                    .collect();
                u.graphs.push(Graph { jobs, edges });
            }
            u.label = format!("{}+removals", u.label);
            u
        })
        .collect()
}

/// one universe holding the sub-configurations of *every* kind vector over n slots: a chain step may
/// re-declare a job id with another kind (an Output that becomes an Ephemeral, ...)
pub fn slots_kindswap(n: usize) -> Vec<Universe> {
    let mut graphs = Vec::new();
    for ks in kind_vectors(n) {
        graphs.extend(sub_graphs(&full_forward(&ks)));
    }
    graphs.sort_by_key(|g| (g.n(), g.edges.len()));
    graphs.dedup();
    vec![Universe {
        label: format!("kindswap{}", n),
        graphs,
    }]
}

/// the late-requirement gadget with four free slots in a row (`s -> t -> v -> w`, every subset of these
/// three edges), Output / Ephemeral kinds only, every subset of the edges e0 -> slot: a failure of the
/// late-required e0 reaches the end of the row along paths of different length (signal waves)
pub fn late4_row() -> Vec<Universe> {
    let names = ["s", "t", "v", "w"];
    let mut out = Vec::new();
    for kv in 0..32usize {
        // bit 4: e0's edges are declared from the end of the row backwards (signal order follows declaration order)
        let rev = kv & 16 != 0;
        for es in 0..(1usize << 7) {
            let mut jobs = vec![JobDef::new("x", Kind::A), JobDef::new("n", Kind::O), JobDef::new("e0", Kind::E)];
            for i in 0..4 {
                jobs.push(JobDef::new(names[i], if kv & (1 << i) != 0 { Kind::E } else { Kind::O }));
            }
            let mut edges = vec![
                Edge { up: 0, down: 1, read: true, parts: vec![] },
                Edge { up: 2, down: 1, read: true, parts: vec![] },
            ];
            let mut below = [false; 4];
            let order: Vec<usize> = if rev { vec![3, 2, 1, 0] } else { vec![0, 1, 2, 3] };
            for i in order {
                if es & (1 << i) != 0 {
                    edges.push(Edge { up: 2, down: 3 + i, read: true, parts: vec![] });
                    below[i] = true;
                }
            }
            for i in 0..3 {
                if es & (1 << (4 + i)) != 0 {
                    edges.push(Edge { up: 3 + i, down: 4 + i, read: true, parts: vec![] });
                    if below[i] {
                        below[i + 1] = true;
                    }
                }
            }
            if !below.iter().all(|b| *b) {
                continue;
            }
            out.push(Universe {
                label: format!("late4row:{:05b}:{:07b}", kv, es),
                graphs: vec![Graph { jobs: jobs.clone(), edges: edges.clone() }],
            });
            // the same with one edge n -> slot (a second, longer or shorter path for the failure)
            for i in 0..4 {
                let mut e2 = edges.clone();
                e2.push(Edge { up: 1, down: 3 + i, read: true, parts: vec![] });
                out.push(Universe {
                    label: format!("late4row:{:05b}:{:07b}:n->{}", kv, es, names[i]),
                    graphs: vec![Graph { jobs: jobs.clone(), edges: e2 }],
                });
            }
        }
    }
    out
}

/// the unfiltered 6-job late family with n -> slot edges, Output / Ephemeral slots (thorough)
pub fn late3xun_oe() -> Vec<Universe> {
    late_gadget_full(3, true, false, None, true).into_iter().filter(|u| !u.label.split(':').nth(1).unwrap_or("").contains('A')).collect()
}

/// chains `c0 -> ... -> c(k-1) -> z:Output` (k = 2..=maxk, inner jobs Ephemeral or Output) in which any
/// non-empty set of positions has its own Always input: several independent inputs finishing (or
/// failing) in any order decide, one after the other, what the Ephemerals of the chain must do
pub fn chains_multi(maxk: usize, max_inputs_long: u32) -> Vec<Universe> {
    let mut out = Vec::new();
    for k in 2..=maxk {
        for kv in 0..(1usize << k) {
            for inputs in 1..(1usize << (k + 1)) {
                if (inputs as u32).count_ones() < 2 {
                    continue; // a single input: family `chains`
                }
                if k > 2 && (inputs as u32).count_ones() > max_inputs_long {
                    continue;
                }
                let mut jobs: Vec<JobDef> = (0..k).map(|i| JobDef::new(&format!("c{}", i), if kv & (1 << i) != 0 { Kind::O } else { Kind::E })).collect();
                jobs.push(JobDef::new("z", Kind::O));
                let mut edges: Vec<Edge> = (0..k).map(|i| Edge { up: i, down: i + 1, read: true, parts: vec![] }).collect();
                for pos in 0..=k {
                    if inputs & (1 << pos) != 0 {
                        jobs.push(JobDef::new(&format!("x{}", pos), Kind::A));
                        edges.push(Edge { up: jobs.len() - 1, down: pos, read: true, parts: vec![] });
                    }
                }
                out.push(Universe {
                    label: format!("chainm{}:{:0w$b}:{:b}", k, kv, inputs, w = k),
                    graphs: vec![Graph { jobs, edges }],
                });
            }
        }
    }
    out
}

/// the filtered 6-job late family (every slot below e0, x -> slot edges) with Output / Ephemeral slots only
pub fn late3x_oe() -> Vec<Universe> {
    late_gadget_full(3, true, true, None, false).into_iter().filter(|u| !u.label.split(':').nth(1).unwrap_or("").contains('A')).collect()
}

/// every full n-slot graph as a universe of its own: a chain step changes inputs and deletes outputs
/// but not the graph (the graph-edit chains are in `slots`)
pub fn slots_each_alone(n: usize) -> Vec<Universe> {
    let mut out = Vec::new();
    for ks in kind_vectors(n) {
        for (i, g) in sub_graphs(&full_forward(&ks)).into_iter().filter(|g| g.n() == n).enumerate() {
            out.push(Universe {
                label: format!("alone{}:{}:{}", n, kind_label(&ks), i),
                graphs: vec![g],
            });
        }
    }
    out
}

/// a multi-output job whose two outputs change independently: `x:Always, y:Always -> p:::q` (part p
/// reads x, part q reads y), `d:Output` consumes p, `c:Output` consumes q; every sub-configuration of
/// the consumers.  With the production-like comparison a change of y is no change for d.
/// `volatile_last`: M is an Ephemeral whose part q (only) differs on every execution (C16).
pub fn split_outputs(m_kind: Kind, volatile_last: bool) -> Vec<Universe> {
    let mut graphs = Vec::new();
    for has_d in [true, false] {
        for has_c in [true, false] {
            let mut m = JobDef::new("p:::q", m_kind);
            m.split_inputs = true;
            if volatile_last {
                m.volatile = true;
                m.volatile_last_only = true;
            }
            let mut jobs = vec![JobDef::new("x", Kind::A), JobDef::new("y", Kind::A), m];
            let mut edges = vec![
                Edge { up: 0, down: 2, read: true, parts: vec![] },
                Edge { up: 1, down: 2, read: true, parts: vec![] },
            ];
            if has_d {
                jobs.push(JobDef::new("d", Kind::O));
                edges.push(Edge { up: 2, down: jobs.len() - 1, read: true, parts: vec!["p".into()] });
            }
            if has_c {
                jobs.push(JobDef::new("c", Kind::O));
                edges.push(Edge { up: 2, down: jobs.len() - 1, read: true, parts: vec!["q".into()] });
            }
            graphs.push(Graph { jobs, edges });
        }
    }
    graphs.sort_by_key(|g| (g.n(), g.edges.len()));
    vec![Universe {
        label: format!("split:{:?}{}", m_kind, if volatile_last { ":volatile-q" } else { "" }),
        graphs,
    }]
}

/// runs of 2..=4 Ephemerals below an Always consumer (`h -> ... -> l -> k:Always`): the Ephemerals are
/// needed in every evaluation.  Optionally the head also feeds an Output and the last one also reads an
/// Output.  Used with every node declaration order (the requirement is established at start-up, in
/// declaration order).
pub fn eph_chains_below_always() -> Vec<Universe> {
    let mut out = Vec::new();
    for k in 2..=4usize {
        for head_out in [false, true] {
            for last_in in [false, true] {
                let mut jobs: Vec<JobDef> = (0..k).map(|i| JobDef::new(&format!("e{}", i), Kind::E)).collect();
                jobs.push(JobDef::new("k", Kind::A));
                let mut edges: Vec<Edge> = (0..k).map(|i| Edge { up: i, down: i + 1, read: true, parts: vec![] }).collect();
                if head_out {
                    jobs.push(JobDef::new("o1", Kind::O));
                    edges.push(Edge { up: 0, down: jobs.len() - 1, read: true, parts: vec![] });
                }
                if last_in {
                    jobs.push(JobDef::new("o2", Kind::O));
                    edges.push(Edge { up: jobs.len() - 1, down: k - 1, read: true, parts: vec![] });
                }
                out.push(Universe {
                    label: format!("ephchainA{}:{}{}", k, if head_out { "h" } else { "-" }, if last_in { "l" } else { "-" }),
                    graphs: vec![Graph { jobs, edges }],
                });
            }
        }
    }
    out
}

/// every single-graph universe three times: as declared, with the nodes declared in reverse order, and
/// with the edges declared in reverse order (for analyses that run inside one universe, like follow-ups)
pub fn with_declaration_variants(us: Vec<Universe>) -> Vec<Universe> {
    let mut out = Vec::new();
    for u in us {
        let g = u.graphs[0].clone();
        let n = g.n();
        let mut rev_nodes = g.clone();
        rev_nodes.jobs.reverse();
        for e in rev_nodes.edges.iter_mut() {
            e.up = n - 1 - e.up;
            e.down = n - 1 - e.down;
        }
        let mut rev_edges = g.clone();
        rev_edges.edges.reverse();
        out.push(Universe { label: format!("{}:rev-nodes", u.label), graphs: vec![rev_nodes] });
        out.push(Universe { label: format!("{}:rev-edges", u.label), graphs: vec![rev_edges] });
        out.push(u);
    }
    out
}

/// split outputs + rename + a shared Ephemeral: `x, y:Always -> M` with M = `p:::q` or `p:::q:::s` (part i
/// reads input i), `e:Ephemeral`, `d` consumes p and e, `c` consumes q and e; every sub-configuration of
/// the consumers.  A rename that changes one output only, a late failure of e, a shielded consumer.
pub fn split_rename() -> Vec<Universe> {
    let mut graphs = Vec::new();
    for m_id in ["p:::q", "p:::q:::s"] {
        // (both consumers always present: the sub-configurations are in `split-O` / `split-E`)
        for has_d in [true] {
            for has_c in [true] {
                let mut m = JobDef::new(m_id, Kind::O);
                m.split_inputs = true;
                let mut jobs = vec![JobDef::new("x", Kind::A), JobDef::new("y", Kind::A), m];
                let mut edges = vec![
                    Edge { up: 0, down: 2, read: true, parts: vec![] },
                    Edge { up: 1, down: 2, read: true, parts: vec![] },
                ];
                if has_d || has_c {
                    jobs.push(JobDef::new("e", Kind::E));
                }
                let ei = jobs.len() - 1;
                if has_d {
                    jobs.push(JobDef::new("d", Kind::O));
                    let di = jobs.len() - 1;
                    edges.push(Edge { up: 2, down: di, read: true, parts: vec!["p".into()] });
                    edges.push(Edge { up: ei, down: di, read: true, parts: vec![] });
                }
                if has_c {
                    jobs.push(JobDef::new("c", Kind::O));
                    let ci = jobs.len() - 1;
                    edges.push(Edge { up: 2, down: ci, read: true, parts: vec!["q".into()] });
                    edges.push(Edge { up: ei, down: ci, read: true, parts: vec![] });
                }
                graphs.push(Graph { jobs, edges });
            }
        }
    }
    graphs.sort_by_key(|g| (g.n(), g.edges.len()));
    vec![Universe { label: "split-rename".into(), graphs }]
}

/// two producers merged into one multi-output job and back: `x:Always -> p:::q`, `y:Always -> r`, `d`
/// reads p and r; or `x, y -> p:::q:::r` (parts p and q read x, part r reads y), `d` reads p and r of it.
/// The old id `p:::q` shares two outputs with the merged job, `r` one: the renamed-upstream lookup is
/// unambiguous, and the output that d reads *and* that can change is the one the old id did not have.
pub fn merge_outputs() -> Vec<Universe> {
    let mut graphs = Vec::new();
    let xs = || vec!["x".to_string()];
    let ys = || vec!["y".to_string()];
    for has_d in [true, false] {
        // separate producers
        let mut jobs = vec![JobDef::new("x", Kind::A), JobDef::new("y", Kind::A), JobDef::new("p:::q", Kind::O), JobDef::new("r", Kind::O)];
        let mut edges = vec![
            Edge { up: 0, down: 2, read: true, parts: vec![] },
            Edge { up: 1, down: 3, read: true, parts: vec![] },
        ];
        if has_d {
            jobs.push(JobDef::new("d", Kind::O));
            edges.push(Edge { up: 2, down: 4, read: true, parts: vec!["p".into()] });
            edges.push(Edge { up: 3, down: 4, read: true, parts: vec!["r".into()] });
        }
        graphs.push(Graph { jobs, edges });
        // merged
        let mut m = JobDef::new("p:::q:::r", Kind::O);
        m.part_inputs = vec![xs(), xs(), ys()];
        let mut jobs = vec![JobDef::new("x", Kind::A), JobDef::new("y", Kind::A), m];
        let mut edges = vec![
            Edge { up: 0, down: 2, read: true, parts: vec![] },
            Edge { up: 1, down: 2, read: true, parts: vec![] },
        ];
        if has_d {
            jobs.push(JobDef::new("d", Kind::O));
            edges.push(Edge { up: 2, down: 3, read: true, parts: vec!["p".into(), "r".into()] });
        }
        graphs.push(Graph { jobs, edges });
    }
    graphs.sort_by_key(|g| (g.n(), g.edges.len()));
    vec![Universe { label: "merge".into(), graphs }]
}

/// trees of Ephemerals with one long branch: `r:E -> m1:E -> ... -> md:E -> o1:O <- x:Always` (d = 2, 3)
/// and a short one `r -> o0:O <- y:Always`; whether r is needed is decided by looking through d
/// validated Ephemerals, and which Always job finishes first decides when
pub fn eph_deep_trees() -> Vec<Universe> {
    let mut out = Vec::new();
    for d in 2..=3usize {
        for short_via_eph in [false, true] {
            let mut jobs = vec![JobDef::new("r", Kind::E)];
            let mut edges = Vec::new();
            for i in 0..d {
                jobs.push(JobDef::new(&format!("m{}", i + 1), Kind::E));
                edges.push((i, i + 1));
            }
            let o1 = jobs.len();
            jobs.push(JobDef::new("o1", Kind::O));
            edges.push((d, o1));
            let x = jobs.len();
            jobs.push(JobDef::new("x", Kind::A));
            edges.push((x, o1));
            let mut from = 0;
            if short_via_eph {
                let c = jobs.len();
                jobs.push(JobDef::new("c", Kind::E));
                edges.push((0, c));
                from = c;
            }
            let o0 = jobs.len();
            jobs.push(JobDef::new("o0", Kind::O));
            edges.push((from, o0));
            let y = jobs.len();
            jobs.push(JobDef::new("y", Kind::A));
            edges.push((y, o0));
            let edges = edges.into_iter().map(|(u, dn)| Edge { up: u, down: dn, read: true, parts: vec![] }).collect();
            out.push(Universe {
                label: format!("ephdeep{}{}", d, if short_via_eph { "e" } else { "" }),
                graphs: vec![Graph { jobs, edges }],
            });
        }
    }
    out
}

/// a multi-output job with three outputs whose shared outputs are not the first one:
/// `x:Always -> M`, M = `p:::q` or `o:::p:::q`, `d` reads p, `c` reads q
pub fn rename3() -> Vec<Universe> {
    let mut graphs = Vec::new();
    for m_id in ["p:::q", "o:::p:::q"] {
        for has_d in [true, false] {
            for has_c in [false, true] {
                let mut jobs = vec![JobDef::new("x", Kind::A), JobDef::new(m_id, Kind::O)];
                let mut edges = vec![Edge { up: 0, down: 1, read: true, parts: vec![] }];
                if has_d {
                    jobs.push(JobDef::new("d", Kind::O));
                    edges.push(Edge { up: 1, down: jobs.len() - 1, read: true, parts: vec!["p".into()] });
                }
                if has_c {
                    jobs.push(JobDef::new("c", Kind::O));
                    edges.push(Edge { up: 1, down: jobs.len() - 1, read: true, parts: vec!["q".into()] });
                }
                graphs.push(Graph { jobs, edges });
            }
        }
    }
    graphs.sort_by_key(|g| (g.n(), g.edges.len()));
    vec![Universe { label: "rename3".into(), graphs }]
}
