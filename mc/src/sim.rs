//! The driver: one evaluation of the real engine, with the world the jobs
//! live in (disk, temporary values), the event alphabet and forking.
use crate::model::*;
use pypipegraph2::verif_hooks::{self, VerifSnapshot};
use pypipegraph2::{
    JobKind, JobState, JobStateAlways as JA, JobStateEphemeral as JE, JobStateOutput as JO, PPGEvaluator,
    PPGEvaluatorError, ValidationStatus, VerifStrategy,
};
use serde::{Deserialize, Serialize};
use std::collections::{BTreeMap, HashMap, HashSet};
use std::panic::{catch_unwind, AssertUnwindSafe};
use std::rc::Rc;

pub type Engine = PPGEvaluator<VerifStrategy>;

#[derive(Clone, Copy, Debug, PartialEq, Eq, Hash, PartialOrd, Ord, Serialize, Deserialize)]
pub enum Ev {
    Start(usize),
    Ok(usize),
    Fail(usize),
    Ack(usize),
    /// abort; true: the driver first reports every running job as failed
    Abort(bool),
    /// extra event (thorough C06 only): reconsider_all_jobs
    Reconsider,
}

#[derive(Clone, Copy, Debug, PartialEq, Eq, Hash, PartialOrd, Ord)]
pub enum Res {
    None,
    Ok,
    Failed,
    /// success reported, engine answered EphemeralChangedOutput
    Changed,
    AbortedRunning,
}

#[derive(Clone, Debug, PartialEq, Eq, Hash, PartialOrd, Ord, Serialize, Deserialize)]
pub enum Disp {
    Ok,
    Failed,
    UF,
    /// running when the run was aborted
    AbortedRunning,
    /// never started, run aborted
    Aborted,
    Skipped,
}

#[derive(Clone, Debug)]
pub struct Viol {
    pub prop: &'static str,
    pub clause: &'static str,
    pub msg: String,
    /// structured facts used to match known findings
    pub tags: BTreeMap<&'static str, String>,
}

pub fn viol(prop: &'static str, clause: &'static str, msg: String) -> Viol {
    Viol {
        prop,
        clause,
        msg,
        tags: BTreeMap::new(),
    }
}

impl Viol {
    pub fn tag(mut self, k: &'static str, v: impl ToString) -> Self {
        self.tags.insert(k, v.to_string());
        self
    }
}

pub fn kind_of(k: Kind) -> JobKind {
    match k {
        Kind::A => JobKind::Always,
        Kind::O => JobKind::Output,
        Kind::E => JobKind::Ephemeral,
    }
}

pub fn is_finished_state(s: &JobState) -> bool {
    !matches!(
        s,
        JobState::Always(JA::Undetermined | JA::ReadyToRun | JA::Running)
            | JobState::Output(JO::NotReady(_) | JO::ReadyToRun | JO::Running)
            | JobState::Ephemeral(JE::NotReady(_) | JE::ReadyButDelayed | JE::ReadyToRun(_) | JE::Running(_))
    )
}
pub fn is_uf(s: &JobState) -> bool {
    matches!(
        s,
        JobState::Always(JA::FinishedUpstreamFailure)
            | JobState::Output(JO::FinishedUpstreamFailure)
            | JobState::Ephemeral(JE::FinishedUpstreamFailure)
    )
}
pub fn is_failure_state(s: &JobState) -> bool {
    matches!(
        s,
        JobState::Always(JA::FinishedFailure) | JobState::Output(JO::FinishedFailure) | JobState::Ephemeral(JE::FinishedFailure)
    )
}
pub fn is_aborted_state(s: &JobState) -> bool {
    matches!(
        s,
        JobState::Always(JA::FinishedAborted) | JobState::Output(JO::FinishedAborted) | JobState::Ephemeral(JE::FinishedAborted)
    )
}
pub fn is_failed_any(s: &JobState) -> bool {
    is_uf(s) || is_failure_state(s) || is_aborted_state(s)
}
pub fn is_skipped(s: &JobState) -> bool {
    matches!(s, JobState::Output(JO::FinishedSkipped) | JobState::Ephemeral(JE::FinishedSkipped))
}
pub fn is_success_state(s: &JobState) -> bool {
    matches!(
        s,
        JobState::Always(JA::FinishedSuccess)
            | JobState::Output(JO::FinishedSuccess)
            | JobState::Ephemeral(
                JE::FinishedSuccessNotReadyForCleanup
                    | JE::FinishedSuccessReadyForCleanup
                    | JE::FinishedSuccessCleanedUp
                    | JE::FinishedSuccessSkipCleanup
            )
    )
}
pub fn is_ready_state(s: &JobState) -> bool {
    matches!(
        s,
        JobState::Always(JA::ReadyToRun) | JobState::Output(JO::ReadyToRun) | JobState::Ephemeral(JE::ReadyToRun(_))
    )
}
pub fn is_running_state(s: &JobState) -> bool {
    matches!(
        s,
        JobState::Always(JA::Running) | JobState::Output(JO::Running) | JobState::Ephemeral(JE::Running(_))
    )
}
pub fn state_kind(s: &JobState) -> Kind {
    match s {
        JobState::Always(_) => Kind::A,
        JobState::Output(_) => Kind::O,
        JobState::Ephemeral(_) => Kind::E,
    }
}

fn vs_code(v: &ValidationStatus) -> u8 {
    match v {
        ValidationStatus::Unknown => 0,
        ValidationStatus::Validated => 1,
        ValidationStatus::Invalidated => 2,
    }
}

pub fn state_code(s: &JobState) -> u8 {
    match s {
        JobState::Always(a) => match a {
            JA::Undetermined => 1,
            JA::ReadyToRun => 2,
            JA::Running => 3,
            JA::FinishedSuccess => 4,
            JA::FinishedFailure => 5,
            JA::FinishedUpstreamFailure => 6,
            JA::FinishedAborted => 7,
        },
        JobState::Output(o) => match o {
            JO::NotReady(v) => 10 + vs_code(v),
            JO::ReadyToRun => 14,
            JO::Running => 15,
            JO::FinishedSuccess => 16,
            JO::FinishedFailure => 17,
            JO::FinishedUpstreamFailure => 18,
            JO::FinishedSkipped => 19,
            JO::FinishedAborted => 20,
        },
        JobState::Ephemeral(e) => match e {
            JE::NotReady(v) => 30 + vs_code(v),
            JE::ReadyButDelayed => 34,
            JE::ReadyToRun(v) => 35 + vs_code(v),
            JE::Running(v) => 40 + vs_code(v),
            JE::FinishedSuccessNotReadyForCleanup => 45,
            JE::FinishedSuccessReadyForCleanup => 46,
            JE::FinishedSuccessCleanedUp => 47,
            JE::FinishedSuccessSkipCleanup => 48,
            JE::FinishedFailure => 49,
            JE::FinishedUpstreamFailure => 50,
            JE::FinishedSkipped => 51,
            JE::FinishedAborted => 52,
        },
    }
}

pub struct Sim {
    pub cfg: Rc<Cfg>,
    pub refr: Rc<Reference>,
    pub eng: Engine,
    pub started: Vec<bool>,
    pub res: Vec<Res>,
    /// record reported to the engine
    pub rec: Vec<Option<String>>,
    /// part -> value produced in this evaluation
    pub val: Vec<Option<BTreeMap<String, String>>>,
    pub disk: Disk,
    /// offered for cleanup at some point
    pub offered: Vec<bool>,
    /// jobs whose cleanup offer first appeared with the last call
    pub offered_now: Vec<usize>,
    pub acked: Vec<bool>,
    /// was in the ready set at some point
    pub was_ready: Vec<bool>,
    /// how often the job entered a ready-to-run state (transition log)
    pub ready_entries: Vec<u8>,
    pub aborted: bool,
    pub startup_done: bool,
    /// engine returned an unexpected error / panicked: stop exploring this path
    pub dead: bool,
    pub events: Vec<Ev>,
    pub viol: Vec<Viol>,
    /// monitor clauses exercised by the last calls (drained by the search)
    pub notes: Vec<&'static str>,
    /// transitions of the last call (drained log)
    pub last_transitions: Vec<(String, JobState, JobState)>,
}

pub fn panic_msg(p: &Box<dyn std::any::Any + Send>) -> String {
    if let Some(s) = p.downcast_ref::<&str>() {
        s.to_string()
    } else if let Some(s) = p.downcast_ref::<String>() {
        s.clone()
    } else {
        "?".into()
    }
}

pub fn build_engine(cfg: &Rc<Cfg>) -> Engine {
    let c1 = cfg.clone();
    let c2 = cfg.clone();
    let present: HashSet<String> = cfg.disk.keys().cloned().collect();
    let conv: HashMap<String, String> = (0..cfg.graph.n()).map(|j| (cfg.graph.jobs[j].id.clone(), cfg.input_list(j))).collect();
    let _ = c2;
    let strat = VerifStrategy {
        output_already_present: Rc::new(move |q: &str| q.split(":::").all(|p| present.contains(p))),
        is_history_altered: Rc::new(move |u: &str, d: &str, l: &str, c: &str| c1.altered(u, d, l, c)),
        get_input_list: Rc::new(move |j: &str, _ups: &[&str]| conv.get(j).expect("job").clone()),
    };
    let hist: HashMap<String, String> = cfg.hist.iter().map(|(k, v)| (k.clone(), v.clone())).collect();
    let mut eng = PPGEvaluator::new_with_history(hist, strat);
    for j in &cfg.graph.jobs {
        eng.add_node(&j.id, kind_of(j.kind));
    }
    for e in &cfg.graph.edges {
        eng.depends_on(&cfg.graph.jobs[e.down].id, &cfg.graph.jobs[e.up].id);
    }
    eng
}

impl Sim {
    pub fn new(cfg: Rc<Cfg>, refr: Rc<Reference>) -> Self {
        let n = cfg.graph.n();
        let eng = build_engine(&cfg);
        Sim {
            eng,
            refr,
            started: vec![false; n],
            res: vec![Res::None; n],
            rec: vec![None; n],
            val: vec![None; n],
            disk: cfg.disk.clone(),
            offered: vec![false; n],
            offered_now: vec![],
            acked: vec![false; n],
            was_ready: vec![false; n],
            ready_entries: vec![0; n],
            aborted: false,
            startup_done: false,
            dead: false,
            events: vec![],
            viol: vec![],
            notes: vec![],
            last_transitions: vec![],
            cfg,
        }
    }

    pub fn fork(&self) -> Sim {
        Sim {
            cfg: self.cfg.clone(),
            refr: self.refr.clone(),
            eng: self.eng.verif_fork(),
            started: self.started.clone(),
            res: self.res.clone(),
            rec: self.rec.clone(),
            val: self.val.clone(),
            disk: self.disk.clone(),
            offered: self.offered.clone(),
            offered_now: vec![],
            acked: self.acked.clone(),
            was_ready: self.was_ready.clone(),
            ready_entries: self.ready_entries.clone(),
            aborted: self.aborted,
            startup_done: self.startup_done,
            dead: self.dead,
            events: self.events.clone(),
            viol: vec![],
            notes: vec![],
            last_transitions: vec![],
        }
    }

    pub fn idx(&self, id: &str) -> usize {
        self.cfg.graph.idx(id).expect("known job")
    }

    /// run one engine call with the seams set and panics caught
    pub fn call<R>(&mut self, what: &str, f: impl FnOnce(&mut Engine) -> Result<R, PPGEvaluatorError>) -> Option<Result<R, PPGEvaluatorError>> {
        verif_hooks::set_seam(0, self.cfg.seams[0]);
        verif_hooks::set_seam(1, self.cfg.seams[1]);
        let eng = &mut self.eng;
        match catch_unwind(AssertUnwindSafe(|| f(eng))) {
            Ok(r) => Some(r),
            Err(p) => {
                self.viol.push(viol("C06", "panic", format!("panic in {}: {}", what, panic_msg(&p))).tag("call", what));
                self.dead = true;
                None
            }
        }
    }

    fn engine_error(&mut self, what: &str, e: PPGEvaluatorError) {
        let kind = match &e {
            PPGEvaluatorError::APIError(_) => "api-error-on-legal-call",
            PPGEvaluatorError::InternalError(_) => "internal-error",
            PPGEvaluatorError::EphemeralChangedOutput { .. } => "unexpected-changed-output",
        };
        let text = match &e {
            PPGEvaluatorError::APIError(s) | PPGEvaluatorError::InternalError(s) => s.clone(),
            other => format!("{:?}", other),
        };
        let short: String = text.chars().take(48).collect();
        self.viol
            .push(viol("C06", kind, format!("{}: {:?}", what, e)).tag("call", what).tag("text", short));
        self.dead = true;
    }

    pub fn startup(&mut self) {
        verif_hooks::take_transitions();
        match self.call("event_startup", |e| e.event_startup()) {
            Some(Ok(())) => {}
            Some(Err(e)) => self.engine_error("event_startup", e),
            None => {}
        }
        self.startup_done = true;
        self.after_call();
    }

    fn after_call(&mut self) {
        self.last_transitions = verif_hooks::take_transitions();
        if self.dead {
            return;
        }
        self.offered_now.clear();
        for id in self.eng.query_ready_for_cleanup() {
            let j = self.idx(&id);
            if !self.offered[j] {
                self.offered_now.push(j);
            }
            self.offered[j] = true;
        }
        for id in self.eng.query_ready_to_run() {
            let j = self.idx(&id);
            self.was_ready[j] = true;
        }
    }

    /// value of job j from what is materialised right now
    pub fn materialised_value(&self, j: usize) -> BTreeMap<String, String> {
        let g = &self.cfg.graph;
        self.cfg.value(j, &|u, p| {
            let v = match g.jobs[u].kind {
                Kind::O => self.disk.get(p).cloned(),
                Kind::E => {
                    if self.res[u] == Res::Ok && !self.offered[u] {
                        self.val[u].as_ref().and_then(|m| m.get(p).cloned())
                    } else {
                        None
                    }
                }
                Kind::A => {
                    if self.res[u] == Res::Ok {
                        self.val[u].as_ref().and_then(|m| m.get(p).cloned())
                    } else {
                        None
                    }
                }
            };
            v.unwrap_or_else(|| format!("MISSING<{}>", p))
        })
    }

    fn spoil(&mut self, j: usize) {
        let jd = self.cfg.graph.jobs[j].clone();
        if jd.kind == Kind::O {
            for p in jd.parts() {
                match self.cfg.fail_mode {
                    FailMode::Corrupt => {
                        self.disk.insert(p.to_string(), "CORRUPT".into());
                    }
                    FailMode::Remove => {
                        self.disk.remove(p);
                    }
                }
            }
        }
    }

    pub fn apply(&mut self, ev: Ev) {
        let cfg = self.cfg.clone();
        let g = &cfg.graph;
        self.events.push(ev);
        match ev {
            Ev::Start(j) => {
                let id = g.jobs[j].id.clone();
                match self.call("event_now_running", |e| e.event_now_running(&id)) {
                    Some(Ok(())) => self.started[j] = true,
                    Some(Err(e)) => self.engine_error("event_now_running", e),
                    None => {}
                }
            }
            Ev::Ok(j) => {
                let id = g.jobs[j].id.clone();
                let value = self.materialised_value(j);
                let record = cfg.record(&value);
                let r2 = record.clone();
                if g.jobs[j].kind == Kind::E && self.refr.uptodate[j] && !self.refr.ambiguous {
                    self.notes.push("C16.validated-ephemeral-reexecuted");
                }
                match self.call("event_job_finished_success", |e| e.event_job_finished_success(&id, r2)) {
                    Some(Ok(())) => {
                        if g.jobs[j].kind == Kind::E && self.refr.uptodate[j] && !self.refr.ambiguous {
                            if let Some(h) = cfg.hist.get(&id) {
                                if cfg.altered(&id, "!!!", h, &record) {
                                    self.viol.push(viol(
                                        "C16",
                                        "changed-output-undetected",
                                        format!("{} validated ephemeral changed output {} -> {} undetected", id, h, record),
                                    ));
                                }
                            }
                        }
                        self.res[j] = Res::Ok;
                        self.rec[j] = Some(record);
                        if g.jobs[j].kind == Kind::O {
                            for (p, v) in value.iter() {
                                self.disk.insert(p.clone(), v.clone());
                            }
                        }
                        self.val[j] = Some(value);
                    }
                    Some(Err(PPGEvaluatorError::EphemeralChangedOutput { .. })) => {
                        self.res[j] = Res::Changed;
                        self.rec[j] = Some(record.clone());
                        let really = cfg.hist.get(&id).map(|h| cfg.altered(&id, "!!!", h, &record)).unwrap_or(false);
                        if g.jobs[j].kind != Kind::E || (!self.refr.ambiguous && !(self.refr.uptodate[j] && really)) {
                            self.viol.push(viol(
                                "C16",
                                "spurious-changed-output",
                                format!(
                                    "{} EphemeralChangedOutput but uptodate={} altered={} (hist {:?} now {})",
                                    id,
                                    self.refr.uptodate[j],
                                    really,
                                    cfg.hist.get(&id),
                                    record
                                ),
                            ));
                        }
                    }
                    Some(Err(e)) => self.engine_error("event_job_finished_success", e),
                    None => {}
                }
            }
            Ev::Fail(j) => {
                let id = g.jobs[j].id.clone();
                match self.call("event_job_finished_failure", |e| e.event_job_finished_failure(&id)) {
                    Some(Ok(())) => {
                        self.res[j] = Res::Failed;
                        self.spoil(j);
                    }
                    Some(Err(e)) => self.engine_error("event_job_finished_failure", e),
                    None => {}
                }
            }
            Ev::Ack(j) => {
                let id = g.jobs[j].id.clone();
                match self.call("event_job_cleanup_done", |e| e.event_job_cleanup_done(&id)) {
                    Some(Ok(())) => self.acked[j] = true,
                    Some(Err(e)) => self.engine_error("event_job_cleanup_done", e),
                    None => {}
                }
            }
            Ev::Reconsider => match self.call("reconsider_all_jobs", |e| e.reconsider_all_jobs()) {
                Some(Ok(())) => {}
                Some(Err(e)) => self.engine_error("reconsider_all_jobs", e),
                None => {}
            },
            Ev::Abort(fail_running) => {
                let running: Vec<usize> = (0..g.n()).filter(|j| self.started[*j] && self.res[*j] == Res::None).collect();
                let mut all_tr = Vec::new();
                for j in running {
                    let id = g.jobs[j].id.clone();
                    self.spoil(j);
                    if fail_running {
                        match self.call("event_job_finished_failure", |e| e.event_job_finished_failure(&id)) {
                            Some(Ok(())) => self.res[j] = Res::Failed,
                            Some(Err(e)) => self.engine_error("event_job_finished_failure", e),
                            None => {}
                        }
                        all_tr.extend(verif_hooks::take_transitions());
                    } else {
                        self.res[j] = Res::AbortedRunning;
                    }
                    if self.dead {
                        break;
                    }
                }
                if !self.dead {
                    match self.call("abort_remaining", |e| e.abort_remaining()) {
                        Some(Ok(())) => self.aborted = true,
                        Some(Err(e)) => {
                            self.viol
                                .push(viol("C10", "abort-error", format!("abort_remaining error {:?}", e)));
                            self.dead = true;
                        }
                        None => {
                            // the panic was logged as C06 by call(); it is a C10 violation as well
                            self.viol.push(viol("C10", "abort-panic", "abort_remaining panicked".into()));
                        }
                    }
                }
                self.after_call();
                all_tr.extend(std::mem::take(&mut self.last_transitions));
                self.last_transitions = all_tr;
                return;
            }
        }
        self.after_call();
    }

    pub fn enabled(&mut self, allow_fail: bool, allow_abort: bool, allow_reconsider: bool) -> Vec<Ev> {
        let mut out = Vec::new();
        if self.dead || self.aborted {
            return out;
        }
        let fin = self.eng.is_finished();
        let mut ready: Vec<usize> = self.eng.query_ready_to_run().iter().map(|id| self.idx(id)).collect();
        ready.sort();
        for j in ready {
            if !self.started[j] {
                out.push(Ev::Start(j));
            }
        }
        for j in 0..self.started.len() {
            if self.started[j] && self.res[j] == Res::None {
                out.push(Ev::Ok(j));
                if allow_fail {
                    out.push(Ev::Fail(j));
                }
            }
        }
        let mut cl: Vec<usize> = self.eng.query_ready_for_cleanup().iter().map(|id| self.idx(id)).collect();
        cl.sort();
        for j in cl {
            out.push(Ev::Ack(j));
        }
        if !fin && allow_abort {
            out.push(Ev::Abort(true));
            out.push(Ev::Abort(false));
        }
        if !fin && allow_reconsider && !matches!(self.events.last(), Some(Ev::Reconsider)) {
            out.push(Ev::Reconsider);
        }
        out
    }

    /// canonical key of the whole (engine + driver) state, see DESIGN 3.3
    pub fn key(&self, snap: &VerifSnapshot) -> Vec<u8> {
        let mut k: Vec<u8> = Vec::with_capacity(128);
        for (i, j) in snap.jobs.iter().enumerate() {
            k.push(state_code(&j.state));
            k.push(j.considered_in_current_gen as u8 | ((j.in_dag as u8) << 1));
            match &j.history_output {
                Some(h) => {
                    k.push(1);
                    k.extend_from_slice(h.as_bytes());
                    k.push(0);
                }
                None => k.push(0),
            }
            k.push(self.started[i] as u8 | (self.offered[i] as u8) << 1 | (self.acked[i] as u8) << 2 | (self.was_ready[i] as u8) << 3);
            k.push(match self.res[i] {
                Res::None => 0,
                Res::Ok => 1,
                Res::Failed => 2,
                Res::Changed => 3,
                Res::AbortedRunning => 4,
            });
        }
        k.push(0xfe);
        for e in snap.edges.iter() {
            k.push(e.upstream as u8);
            k.push(e.downstream as u8);
            k.push(e.required as u8 * 4 + e.invalidated as u8);
        }
        k.push(0xfe);
        for r in snap.ready_to_run.iter() {
            k.extend_from_slice(r.as_bytes());
            k.push(0);
        }
        k.push(0xfe);
        for r in snap.ready_for_cleanup.iter() {
            k.extend_from_slice(r.as_bytes());
            k.push(0);
        }
        k.push(0xfe);
        k.push(snap.start_status);
        k.push(self.aborted as u8);
        for (p, v) in self.disk.iter() {
            k.extend_from_slice(p.as_bytes());
            k.push(1);
            k.extend_from_slice(v.as_bytes());
            k.push(0);
        }
        k
    }
}
