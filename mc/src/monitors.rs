//! Property monitors: per transition, per state, per terminal state.
use crate::model::*;
use crate::sim::*;
use pypipegraph2::verif_hooks::{self, VerifSnapshot};
use pypipegraph2::{JobOutputResult, JobState, PPGEvaluatorError};
use std::collections::{BTreeMap, HashSet};

/// bit i-1 set: monitors of property C<i> are on
pub type Mon = u32;
pub fn mon(p: u32) -> Mon {
    1 << (p - 1)
}
pub const ALL: Mon = (1 << 20) - 1;
pub fn on(m: Mon, p: u32) -> bool {
    m & mon(p) != 0
}

/// counts how often a monitor clause was exercised on a non-trivial case
#[derive(Default, Clone, Debug)]
pub struct Exercised {
    pub m: BTreeMap<&'static str, u64>,
}
impl Exercised {
    pub fn hit(&mut self, k: &'static str) {
        *self.m.entry(k).or_insert(0) += 1;
    }
    pub fn add(&mut self, k: &'static str, n: u64) {
        *self.m.entry(k).or_insert(0) += n;
    }
    pub fn merge(&mut self, o: &Exercised) {
        for (k, v) in o.m.iter() {
            *self.m.entry(k).or_insert(0) += v;
        }
    }
}

/// checks on the transitions logged during the last call (C17, C07)
pub fn check_transitions(sim: &mut Sim, m: Mon, ex: &mut Exercised) {
    let trans = std::mem::take(&mut sim.last_transitions);
    for (id, from, to) in trans.iter() {
        if on(m, 17) {
            ex.hit("C17.transition");
            if state_kind(from) != state_kind(to) {
                sim.viol.push(viol("C17", "kind-changed", format!("{} kind changed {:?}->{:?}", id, from, to)));
            }
            if is_finished_state(from) && !is_finished_state(to) {
                sim.viol
                    .push(viol("C17", "finished-to-unfinished", format!("{} {:?}->{:?}", id, from, to)));
            }
            if is_success_state(from) && !is_success_state(to) {
                sim.viol
                    .push(viol("C17", "success-to-other", format!("{} {:?}->{:?}", id, from, to)));
            }
            if is_ready_state(to) && !is_ready_state(from) {
                let j = sim.idx(id);
                sim.ready_entries[j] = sim.ready_entries[j].saturating_add(1);
                if sim.ready_entries[j] > 1 {
                    sim.viol.push(viol("C17", "offered-twice", format!("{} enters a ready-to-run state for the second time ({:?}->{:?})", id, from, to)));
                }
                // was_ready is updated after the call: a second offer shows up here
                if sim.started[j] {
                    sim.viol.push(viol("C17", "offered-after-start", format!("{} {:?}->{:?}", id, from, to)));
                }
            }
        }
        if on(m, 7) {
            let j = sim.idx(id);
            if sim.started[j] && is_uf(to) {
                sim.viol.push(
                    viol("C07", "started-became-uf", format!("{} started but became upstream-failed {:?}->{:?}", id, from, to))
                        .tag("from", format!("{:?}", from)),
                );
            }
        }
    }
    sim.last_transitions = trans;
    // C13: the moment a cleanup offer appears, all direct downstreams have finished and none of them
    // has failed, is upstream-failed or aborted (a downstream may still be turned upstream-failed
    // later by a late failure elsewhere; the offer stands until it is acknowledged)
    if on(m, 13) && !sim.offered_now.is_empty() && !sim.dead {
        let snap = sim.eng.verif_snapshot();
        let g = &sim.cfg.graph;
        let mut v = Vec::new();
        for &j in sim.offered_now.iter() {
            ex.hit("C13.offer-moment");
            for d in g.downs(j) {
                let sd = &snap.jobs[d].state;
                if !is_finished_state(sd) {
                    v.push(viol("C13", "offered-downstream-unfinished", format!("{} cleanup offered, downstream {} is {:?}", g.jobs[j].id, g.jobs[d].id, sd)));
                } else if is_failed_any(sd) && !sim.aborted {
                    v.push(viol("C13", "offered-downstream-failed", format!("{} cleanup offered, downstream {} is {:?}", g.jobs[j].id, g.jobs[d].id, sd)));
                }
            }
        }
        sim.viol.extend(v);
    }
}

/// invariants of every reachable state (between driver calls)
pub fn check_state(sim: &mut Sim, snap: &VerifSnapshot, m: Mon, ex: &mut Exercised) {
    let cfg = sim.cfg.clone();
    let g = &cfg.graph;
    let n = g.n();
    let fin = sim.eng.is_finished();
    let ready = sim.eng.query_ready_to_run();
    let running = sim.eng.query_jobs_running();
    let cleanup = sim.eng.query_ready_for_cleanup();
    let failed = sim.eng.query_failed();
    let uf = sim.eng.query_upstream_failed();
    let mut v: Vec<Viol> = Vec::new();
    let st = |j: usize| -> &JobState { &snap.jobs[j].state };

    if on(m, 5) && sim.aborted {
        // "once it reports finished nothing is ready or running" holds for an aborted evaluation too
        if fin && !ready.is_empty() {
            v.push(viol("C05", "finished-but-ready", format!("finished (after abort) but ready set {:?}", ready)));
        }
        if fin && !running.is_empty() {
            v.push(viol("C05", "finished-but-running", format!("finished (after abort) but running {:?}", running)));
        }
    }
    if on(m, 5) && !sim.aborted {
        ex.hit("C05.state");
        if !fin && ready.is_empty() && running.is_empty() {
            v.push(viol("C05", "stall", "not finished, nothing ready or running".into()));
        }
        if fin && !ready.is_empty() {
            v.push(viol("C05", "finished-but-ready", format!("finished but ready set {:?}", ready)));
        }
        if fin && !running.is_empty() {
            v.push(viol("C05", "finished-but-running", format!("finished but running {:?}", running)));
        }
        for j in 0..n {
            if ready.contains(&g.jobs[j].id) && sim.started[j] {
                v.push(viol("C05", "offered-again", format!("{} offered again after it was started", g.jobs[j].id)));
            }
        }
    }
    if on(m, 10) && sim.aborted {
        ex.hit("C10.after-abort");
        if !fin {
            v.push(viol("C10", "not-finished-after-abort", "aborted but not finished".into()));
        }
        if !ready.is_empty() {
            v.push(viol("C10", "ready-after-abort", format!("aborted but ready set {:?}", ready)));
        }
        if !running.is_empty() {
            v.push(viol("C10", "running-after-abort", format!("aborted but running {:?}", running)));
        }
    }
    if on(m, 17) {
        ex.hit("C17.state");
        if snap.pending_signals != 0 {
            v.push(viol("C17", "signals-pending", "signals pending between calls".into()));
        }
        let all_fin = (0..n).all(|j| is_finished_state(st(j)));
        if fin != all_fin {
            v.push(viol("C17", "is-finished-mismatch", format!("is_finished {} but all jobs finished {}", fin, all_fin)));
        }
        match sim.eng.next_job_ready_to_run() {
            Some(x) => {
                if !ready.contains(&x) {
                    v.push(viol("C17", "next-job-not-ready", format!("next_job_ready_to_run() = {} is not in the ready set {:?}", x, ready)));
                }
            }
            None => {
                if !ready.is_empty() {
                    v.push(viol("C17", "next-job-none", format!("next_job_ready_to_run() = None although the ready set is {:?}", ready)));
                }
            }
        }
        let mut snap_ready: Vec<String> = ready.iter().cloned().collect();
        snap_ready.sort();
        if snap_ready != snap.ready_to_run {
            v.push(viol("C17", "snapshot-mismatch", "ready query differs from snapshot".into()));
        }
        for j in 0..n {
            let id = &g.jobs[j].id;
            if snap.jobs[j].job_id != *id {
                v.push(viol("C17", "snapshot-mismatch", "job order".into()));
            }
            if state_kind(st(j)) != g.jobs[j].kind {
                v.push(viol("C17", "kind-changed", format!("{} declared {:?} state {:?}", id, g.jobs[j].kind, st(j))));
            }
            if ready.contains(id) != is_ready_state(st(j)) {
                v.push(viol("C17", "ready-set-vs-state", format!("{} ready-set {} vs state {:?}", id, ready.contains(id), st(j))));
            }
            if ready.contains(id) && sim.started[j] {
                v.push(viol("C17", "offered-after-start", format!("{} in ready set after start", id)));
            }
            let should_run = sim.started[j] && sim.res[j] == Res::None;
            if running.contains(id) != should_run {
                v.push(viol("C17", "running-set", format!("{} running-set {} vs driver {}", id, running.contains(id), should_run)));
            }
            let should_failed = matches!(sim.res[j], Res::Failed | Res::Changed);
            // a job that was running at an abort may be reported failed or aborted
            if sim.res[j] != Res::AbortedRunning && failed.contains(id) != should_failed {
                v.push(viol("C17", "failed-set", format!("{} failed-set {} vs driver {} (state {:?})", id, failed.contains(id), should_failed, st(j))));
            }
            if sim.res[j] == Res::Ok && !is_success_state(st(j)) {
                v.push(viol("C17", "success-lost", format!("{} reported success but state {:?}", id, st(j))).tag("state", format!("{:?}", st(j))));
            }
            if uf.contains(id) != is_uf(st(j)) {
                v.push(viol("C17", "uf-set", format!("{} uf-set vs state {:?}", id, st(j))));
            }
            if uf.contains(id) && failed.contains(id) {
                v.push(viol("C17", "failed-and-uf", format!("{} both failed and upstream-failed", id)));
            }
            if uf.contains(id) && sim.started[j] {
                v.push(viol("C17", "started-and-uf", format!("{} started and upstream-failed", id)));
            }
            // the cleanup set agrees with the job's state and with the events delivered so far
            let rfc = matches!(st(j), JobState::Ephemeral(pypipegraph2::JobStateEphemeral::FinishedSuccessReadyForCleanup));
            if cleanup.contains(id) != rfc {
                v.push(viol("C17", "cleanup-set-vs-state", format!("{} cleanup-set {} vs state {:?}", id, cleanup.contains(id), st(j))));
            }
            if sim.offered[j] && !sim.acked[j] && !cleanup.contains(id) {
                v.push(viol("C17", "cleanup-offer-lost", format!("{} was offered for cleanup, no acknowledgement was delivered, but it is no longer in the cleanup set", id)));
            }
            if sim.acked[j] && cleanup.contains(id) {
                v.push(viol("C17", "cleanup-after-ack", format!("{} still in the cleanup set after the acknowledgement", id)));
            }
            if cleanup.contains(id) && !(g.jobs[j].kind == Kind::E && sim.res[j] == Res::Ok) {
                v.push(viol("C17", "cleanup-set", format!("{} in cleanup set but not a successfully executed Ephemeral", id)));
            }
            match sim.eng.get_job_output(id) {
                JobOutputResult::Done(o) => {
                    if sim.res[j] == Res::Ok && Some(&o) != sim.rec[j].as_ref() {
                        v.push(viol("C17", "job-output", format!("{} get_job_output {:?} != reported {:?}", id, o, sim.rec[j])));
                    }
                }
                JobOutputResult::NotDone => {
                    if sim.res[j] == Res::Ok {
                        v.push(viol("C17", "job-output", format!("{} succeeded but get_job_output is NotDone", id)));
                    }
                }
                JobOutputResult::NoSuchJob => v.push(viol("C17", "job-output", format!("{} NoSuchJob", id))),
            }
        }
    }
    // C17: the cleanup set is consistent with the states of the offered jobs' consumers (the same state
    // predicate as C13's offered-downstream-unfinished, judged under C17's name: seeded change C17-A-r6)
    if on(m, 17) {
        for j in 0..n {
            let id = &g.jobs[j].id;
            if cleanup.contains(id) {
                ex.hit("C17.offered-consumers");
                for d in g.downs(j) {
                    if !is_finished_state(st(d)) {
                        v.push(viol("C17", "cleanup-offer-vs-consumer-state", format!("{} is in the cleanup set, consumer {} is {:?}", id, g.jobs[d].id, st(d))));
                    }
                }
            }
        }
    }
    if on(m, 13) {
        for j in 0..n {
            let id = &g.jobs[j].id;
            if cleanup.contains(id) {
                ex.hit("C13.offered");
                if g.jobs[j].kind != Kind::E || sim.res[j] != Res::Ok {
                    v.push(viol("C13", "offered-not-executed", format!("{} offered for cleanup but not executed successfully", id)));
                }
                for d in g.downs(j) {
                    // (whether a downstream had failed is judged at the moment of the offer: check_transitions)
                    if !is_finished_state(st(d)) {
                        v.push(viol("C13", "offered-downstream-unfinished", format!("{} cleanup offered, downstream {} is {:?}", id, g.jobs[d].id, st(d))));
                    }
                }
                if sim.acked[j] {
                    v.push(viol("C13", "offered-after-ack", format!("{} in cleanup set after acknowledgement", id)));
                }
            }
            if sim.offered[j] && !sim.acked[j] && !cleanup.contains(id) {
                v.push(viol("C13", "offer-withdrawn", format!("{} cleanup offer withdrawn before acknowledgement", id)));
            }
        }
    }
    if on(m, 7) {
        // blocked: not started and depends on a failed job directly or through blocked jobs
        let mut blocked = vec![false; n];
        let mut any_failed = false;
        for &j in g.topo().iter() {
            if matches!(sim.res[j], Res::Failed | Res::Changed) {
                any_failed = true;
            }
            if !sim.started[j] {
                for u in g.ups(j) {
                    if matches!(sim.res[u], Res::Failed | Res::Changed) || blocked[u] {
                        blocked[j] = true;
                    }
                }
            }
        }
        if any_failed {
            ex.hit("C07.state-with-failure");
            // a stall after a failure: jobs without a failed ancestor that the failure-free twin
            // executes will never be executed (the stall itself is C05's business)
            if !fin && ready.is_empty() && running.is_empty() && !sim.aborted && !sim.refr.ambiguous {
                for j in 0..n {
                    let failed_anc = g.ancestors(j).iter().any(|a| matches!(sim.res[*a], Res::Failed | Res::Changed));
                    if g.jobs[j].kind != Kind::E && !failed_anc && sim.refr.exec[j] && !sim.started[j] && !matches!(sim.res[j], Res::Failed | Res::Changed) {
                        v.push(viol("C07", "unaffected-job-starved", format!("{} has no failed ancestor and is executed without the failure, but the evaluation stalls before it is offered", g.jobs[j].id)));
                    }
                }
            }
        }
        for j in 0..n {
            let id = &g.jobs[j].id;
            if blocked[j] && ready.contains(id) && !sim.aborted {
                // offered *after* the failure: it was not in the ready set when the failure was reported?
                // The statement forbids offering after the failure; a job that was already offered
                // before the failure and is still waiting is reported under its own clause.
                v.push(
                    viol("C07", "blocked-but-offered", format!("{} is offered although an upstream failed", id))
                        .tag("state", format!("{:?}", st(j))),
                );
            }
            if uf.contains(id) {
                let ok = g.ups(j).iter().any(|u| matches!(sim.res[*u], Res::Failed | Res::Changed) || uf.contains(&g.jobs[*u].id));
                if !ok {
                    v.push(viol("C07", "uf-without-cause", format!("{} upstream-failed without failed/UF direct upstream", id)));
                }
                if sim.started[j] {
                    v.push(viol("C07", "started-and-uf", format!("{} started and upstream-failed", id)));
                }
            }
        }
    }
    if on(m, 16) {
        // "treats the job as failed and its not-yet-started dependants as upstream-failed"
        let mut blocked16 = vec![false; n];
        for &j in g.topo().iter() {
            if sim.res[j] == Res::Changed {
                ex.hit("C16.changed-output-state");
                let id = &g.jobs[j].id;
                if !failed.contains(id) || !is_failure_state(st(j)) {
                    v.push(viol("C16", "changed-not-failed", format!("{} changed its output but is not reported failed (state {:?})", id, st(j))));
                }
            }
            if !sim.started[j] {
                for u in g.ups(j) {
                    if sim.res[u] == Res::Changed || blocked16[u] {
                        blocked16[j] = true;
                    }
                }
            }
        }
        for j in 0..n {
            if blocked16[j] && ready.contains(&g.jobs[j].id) && !sim.aborted {
                v.push(viol("C16", "dependant-offered", format!("{} is offered although an upstream Ephemeral failed by changing its output", g.jobs[j].id)));
            }
        }
    }
    if on(m, 2) && !sim.aborted {
        for id in ready.iter() {
            let j = sim.idx(id);
            if sim.started[j] {
                continue;
            }
            for u in g.ups(j) {
                ex.hit("C02.ready-with-upstream");
                let uid = &g.jobs[u].id;
                if !is_finished_state(st(u)) || is_failed_any(st(u)) {
                    v.push(viol("C02", "upstream-not-done", format!("{} ready but upstream {} is {:?}", id, uid, st(u))));
                    continue;
                }
                match g.jobs[u].kind {
                    Kind::O => {
                        if !g.jobs[u].parts().iter().all(|p| sim.disk.contains_key(*p)) {
                            v.push(viol("C02", "output-missing", format!("{} ready but Output upstream {} missing", id, uid)));
                        }
                    }
                    Kind::E => {
                        if sim.res[u] != Res::Ok {
                            v.push(viol("C02", "ephemeral-not-executed", format!("{} ready but Ephemeral upstream {} not executed ({:?})", id, uid, st(u))));
                        } else if sim.offered[u] {
                            v.push(viol("C02", "ephemeral-cleaned", format!("{} ready but Ephemeral upstream {} already offered for cleanup", id, uid)));
                        }
                    }
                    Kind::A => {
                        if sim.res[u] != Res::Ok {
                            v.push(viol("C02", "always-not-executed", format!("{} ready but Always upstream {} not executed", id, uid)));
                        }
                    }
                }
                match sim.eng.get_job_output(uid) {
                    JobOutputResult::Done(_) => {}
                    _ => v.push(viol("C02", "no-upstream-output", format!("{} ready but get_job_output({}) not Done", id, uid))),
                }
            }
        }
    }
    if on(m, 4) {
        for j in 0..n {
            if sim.started[j] && !cfg_relevant(&sim.refr, j) {
                v.push(viol("C04", "irrelevant-executed", format!("{} executed although no non-Ephemeral job depends on it", g.jobs[j].id)));
            }
        }
    }
    sim.viol.extend(v);
}

fn cfg_relevant(r: &Reference, j: usize) -> bool {
    r.relevant[j]
}

#[derive(Clone, Debug, PartialEq, Eq, Hash, PartialOrd, Ord)]
pub struct Terminal {
    pub disp: Vec<Disp>,
    pub started: Vec<bool>,
    pub hist: Hist,
    pub disk: Disk,
    pub aborted: bool,
    pub any_failed: bool,
    /// the driver reported a failure or aborted (as opposed to the engine declaring one itself)
    pub driver_fault: bool,
    pub offered: Vec<bool>,
}

impl Terminal {
    pub fn interrupted(&self) -> bool {
        self.aborted || self.any_failed
    }
}

pub fn dispositions(sim: &Sim, snap: &VerifSnapshot, v: &mut Vec<Viol>) -> Vec<Disp> {
    let g = &sim.cfg.graph;
    (0..g.n())
        .map(|j| {
            let s = &snap.jobs[j].state;
            match sim.res[j] {
                Res::Ok => Disp::Ok,
                Res::Failed | Res::Changed => Disp::Failed,
                Res::AbortedRunning => Disp::AbortedRunning,
                Res::None => {
                    if is_uf(s) {
                        Disp::UF
                    } else if is_skipped(s) {
                        Disp::Skipped
                    } else if is_aborted_state(s) {
                        Disp::Aborted
                    } else {
                        v.push(viol("C17", "never-started-final-state", format!("{} never started but final state {:?}", g.jobs[j].id, s)));
                        Disp::Skipped
                    }
                }
            }
        })
        .collect()
}

/// checks in a finished state; returns the terminal description
pub fn terminal_checks(sim: &mut Sim, snap: &VerifSnapshot, m: Mon, ex: &mut Exercised) -> Option<Terminal> {
    let cfg = sim.cfg.clone();
    let refr = sim.refr.clone();
    let g = &cfg.graph;
    let n = g.n();
    let nh = match sim.call("new_history", |e| e.new_history()) {
        Some(Ok(h)) => h,
        Some(Err(e)) => {
            let text = match &e {
                PPGEvaluatorError::InternalError(s) | PPGEvaluatorError::APIError(s) => s.clone(),
                o => format!("{:?}", o),
            };
            let short: String = text.chars().take(48).collect();
            sim.viol.push(viol("C06", "internal-error", format!("new_history: {:?}", e)).tag("call", "new_history").tag("text", short));
            if sim.aborted {
                sim.viol.push(viol("C10", "history-error-after-abort", format!("new_history error after abort {:?}", e)));
            }
            return None;
        }
        None => {
            if sim.aborted {
                sim.viol.push(viol("C10", "history-panic-after-abort", "new_history panicked after abort".into()));
            }
            return None;
        }
    };
    let nh: Hist = nh.into_iter().collect();
    let mut v: Vec<Viol> = Vec::new();
    let any_failed = sim.res.iter().any(|r| matches!(r, Res::Failed | Res::Changed | Res::AbortedRunning));
    let disp = dispositions(sim, snap, &mut v);
    // current record of each job as the engine saw it
    let cur_rec: Vec<Option<String>> = (0..n)
        .map(|j| match disp[j] {
            Disp::Ok => sim.rec[j].clone(),
            Disp::Failed | Disp::AbortedRunning => None,
            // not executed: whatever a consumer saw of it is its recorded output (a validly
            // skipped Output can still be turned upstream-failed later)
            _ => cfg.hist.get(&g.jobs[j].id).cloned(),
        })
        .collect();
    let mut blocked = vec![false; n];
    for &j in g.topo().iter() {
        if !sim.started[j] {
            for u in g.ups(j) {
                if disp[u] == Disp::Failed || blocked[u] {
                    blocked[j] = true;
                }
            }
        }
    }
    let failed_anc: Vec<bool> = (0..n).map(|j| g.ancestors(j).iter().any(|a| disp[*a] == Disp::Failed)).collect();
    let amb = refr.ambiguous;

    for j in 0..n {
        let id = &g.jobs[j].id;
        let ups = g.ups(j);
        if on(m, 4) && !amb {
            ex.hit("C04.job");
            if sim.started[j] && !refr.exec[j] {
                v.push(
                    viol(
                        "C04",
                        "unnecessary-execution",
                        format!("{} executed but not necessary (uptodate={}, relevant={})", id, refr.uptodate[j], refr.relevant[j]),
                    )
                    .tag("kind", format!("{:?}", g.jobs[j].kind)),
                );
            }
            if !sim.aborted && !any_failed && refr.exec[j] && !sim.started[j] {
                v.push(viol("C04", "necessary-not-executed", format!("{} not executed but must be (uptodate={})", id, refr.uptodate[j])));
            }
        }
        if on(m, 15) && !amb && cfg.cmp != Cmp::Plain {
            // "records that differ textually but are judged unaltered by the configured comparison never
            // cause a job to be executed": against the reference, which asks the comparison the right way
            ex.hit("C15.job-under-tolerant-comparison");
            if sim.started[j] && !refr.exec[j] {
                v.push(viol(
                    "C15",
                    "executed-although-judged-unaltered",
                    format!("{} executed although every record it depends on is judged unaltered by the configured comparison ({:?})", id, cfg.cmp),
                ));
            }
        }
        if !sim.aborted {
            if on(m, 7) {
                if any_failed && g.jobs[j].kind != Kind::E && !failed_anc[j] && disp[j] != Disp::Failed && !amb {
                    ex.hit("C07.twin");
                    if sim.started[j] != refr.exec[j] {
                        v.push(viol(
                            "C07",
                            "unaffected-job-differs",
                            format!("{} has no failed ancestor but executed={} differs from failure-free {}", id, sim.started[j], refr.exec[j]),
                        ));
                    }
                }
                if blocked[j] {
                    ex.hit("C07.blocked");
                    let exempt = g.jobs[j].kind == Kind::E && !refr.relevant[j];
                    if disp[j] != Disp::UF && !exempt {
                        v.push(viol("C07", "blocked-not-uf", format!("{} blocked by a failure but reported {:?}", id, disp[j])).tag("disp", format!("{:?}", disp[j])));
                    }
                }
            }
            if on(m, 3) && disp[j] == Disp::Skipped && refr.relevant[j] {
                ex.hit("C03.skipped-relevant");
                let has_rec = cfg.hist.contains_key(id) && cfg.hist.get(&format!("{}!!!", id)) == Some(&cfg.input_list(j));
                let mut edges_ok = true;
                let mut ambiguous = false;
                for u in ups.iter() {
                    match (cfg.edge_last(*u, j), &cur_rec[*u]) {
                        (Ok(Some(l)), Some(c)) => {
                            if cfg.altered(&g.jobs[*u].id, id, l, c) {
                                edges_ok = false;
                            }
                        }
                        (Err(()), _) => ambiguous = true,
                        _ => edges_ok = false,
                    }
                }
                let present_ok = g.jobs[j].kind != Kind::O || cfg.present(j);
                // "no failed attempt has touched it since": a failing or interrupted Output job leaves
                // CORRUPT behind (FailMode::Corrupt), and only a successful execution overwrites it
                if g.jobs[j].kind == Kind::O && g.jobs[j].parts().iter().any(|p| cfg.disk.get(*p).map(|x| x == "CORRUPT").unwrap_or(false)) {
                    v.push(viol("C03", "skipped-after-failed-attempt", format!("{} skipped although its last attempt failed or was interrupted (its result is what that attempt left behind)", id)));
                }
                if !(has_rec && (edges_ok || ambiguous) && present_ok) {
                    v.push(viol(
                        "C03",
                        "skipped-not-uptodate",
                        format!("{} skipped but not up to date (own record {}, upstream records {}, present {})", id, has_rec, edges_ok, present_ok),
                    ));
                }
            }
            if on(m, 13) && g.jobs[j].kind == Kind::E && disp[j] == Disp::Ok {
                let all_good = g.downs(j).iter().all(|d| matches!(disp[*d], Disp::Ok | Disp::Skipped));
                if all_good {
                    ex.hit("C13.must-be-offered");
                    if !sim.offered[j] {
                        v.push(viol("C13", "never-offered", format!("{} executed, all downstreams fine, never offered for cleanup", id)));
                    }
                }
            }
        }
        // history relation
        let kj = id.clone();
        let kin = format!("{}!!!", id);
        match disp[j] {
            Disp::Ok => {
                if on(m, 11) {
                    ex.hit("C11.executed");
                    if nh.get(&kj) != sim.rec[j].as_ref() {
                        v.push(viol("C11", "own-record", format!("{} own record {:?} != reported {:?}", id, nh.get(&kj), sim.rec[j])));
                    }
                    if nh.get(&kin) != Some(&cfg.input_list(j)) {
                        v.push(viol("C11", "input-list", format!("{} input list record {:?} expected {:?}", id, nh.get(&kin), cfg.input_list(j))));
                    }
                    for u in &ups {
                        let k = format!("{}!!!{}", g.jobs[*u].id, id);
                        if nh.get(&k) != cur_rec[*u].as_ref() {
                            v.push(viol("C11", "edge-record", format!("{} = {:?}, consumed {:?}", k, nh.get(&k), cur_rec[*u])));
                        }
                    }
                }
            }
            Disp::Failed | Disp::AbortedRunning => {
                if on(m, 16) && sim.res[j] == Res::Changed {
                    // "records nothing for it"
                    ex.hit("C16.changed-output-terminal");
                    if nh.contains_key(&kj) || nh.contains_key(&kin) {
                        v.push(viol("C16", "changed-has-record", format!("{} failed by changing its output but has own records {:?} / {:?}", id, nh.get(&kj), nh.get(&kin))));
                    }
                    for u in &ups {
                        let k = format!("{}!!!{}", g.jobs[*u].id, id);
                        if nh.get(&k) != cfg.hist.get(&k) {
                            v.push(viol("C16", "changed-edge-record", format!("{} changed {:?} -> {:?} although {} failed by changing its output", k, cfg.hist.get(&k), nh.get(&k), id)));
                        }
                    }
                    if !sim.aborted {
                        let mut bl = vec![false; n];
                        for &x in g.topo().iter() {
                            if !sim.started[x] {
                                for u in g.ups(x) {
                                    if u == j || bl[u] {
                                        bl[x] = true;
                                    }
                                }
                            }
                        }
                        for x in 0..n {
                            let exempt = g.jobs[x].kind == Kind::E && !refr.relevant[x];
                            if bl[x] && disp[x] != Disp::UF && !exempt {
                                v.push(viol("C16", "dependant-not-uf", format!("{} depends on {} (failed by changing its output) but is reported {:?}", g.jobs[x].id, id, disp[x])));
                            }
                        }
                    }
                }
                if on(m, 8) {
                    ex.hit("C08.failed");
                    if nh.contains_key(&kj) || nh.contains_key(&kin) {
                        v.push(viol("C08", "failed-has-record", format!("{} {:?} but has own records", id, disp[j])));
                    }
                    for u in &ups {
                        let k = format!("{}!!!{}", g.jobs[*u].id, id);
                        if nh.get(&k) != cfg.hist.get(&k) {
                            v.push(viol("C08", "failed-edge-changed", format!("{} changed {:?} -> {:?} although {} failed", k, cfg.hist.get(&k), nh.get(&k), id)));
                        }
                    }
                    // ... including what it last consumed from jobs that are not in the graph under that
                    // name any more (removed, or a multi-output job that changed its id)
                    for k in old_links_into(&cfg, id) {
                        if nh.get(&k) != cfg.hist.get(&k) {
                            v.push(viol("C08", "failed-old-link-changed", format!("{} changed {:?} -> {:?} although {} failed", k, cfg.hist.get(&k), nh.get(&k), id)));
                        }
                    }
                }
            }
            Disp::UF | Disp::Aborted => {
                if on(m, 9) {
                    ex.hit("C09.never-started");
                    if nh.get(&kj) != cfg.hist.get(&kj) || nh.get(&kin) != cfg.hist.get(&kin) {
                        v.push(
                            viol(
                                "C09",
                                "never-started-records-changed",
                                format!(
                                    "{} never started ({:?}) but own records changed: {:?}->{:?} / {:?}->{:?}",
                                    id,
                                    disp[j],
                                    cfg.hist.get(&kj),
                                    nh.get(&kj),
                                    cfg.hist.get(&kin),
                                    nh.get(&kin)
                                ),
                            )
                            .tag("disp", format!("{:?}", disp[j])),
                        );
                    }
                    for u in &ups {
                        let k = format!("{}!!!{}", g.jobs[*u].id, id);
                        if nh.get(&k) != cfg.hist.get(&k) {
                            v.push(
                                viol("C09", "never-started-edge-changed", format!("{} changed {:?} -> {:?} although {} never started", k, cfg.hist.get(&k), nh.get(&k), id))
                                    .tag("disp", format!("{:?}", disp[j])),
                            );
                        }
                    }
                    for k in old_links_into(&cfg, id) {
                        if nh.get(&k) != cfg.hist.get(&k) {
                            v.push(
                                viol("C09", "never-started-old-link-changed", format!("{} changed {:?} -> {:?} although {} never started", k, cfg.hist.get(&k), nh.get(&k), id))
                                    .tag("disp", format!("{:?}", disp[j])),
                            );
                        }
                    }
                }
            }
            Disp::Skipped => {
                if on(m, 11) && refr.relevant[j] {
                    ex.hit("C11.skipped");
                    if nh.get(&kj) != cfg.hist.get(&kj) || nh.get(&kin) != cfg.hist.get(&kin) {
                        v.push(viol("C11", "skipped-own-record", format!("{} skipped but own records changed", id)));
                    }
                    for u in &ups {
                        let k = format!("{}!!!{}", g.jobs[*u].id, id);
                        if !matches!(disp[*u], Disp::Ok | Disp::Skipped) {
                            continue;
                        }
                        let ok = match (nh.get(&k), &cur_rec[*u]) {
                            (Some(a), Some(b)) => !cfg.altered(&g.jobs[*u].id, id, a, b),
                            (None, None) => true,
                            _ => false,
                        };
                        if !ok {
                            v.push(viol("C11", "skipped-edge-record", format!("{} = {:?} but upstream current {:?} ({} skipped)", k, nh.get(&k), cur_rec[*u], id)));
                        }
                    }
                }
            }
        }
    }
    if on(m, 18) {
        check_c18(&cfg, &nh, &disp, &mut v, ex);
    }
    if on(m, 1) && !sim.aborted && !any_failed {
        let clean = cfg.clean();
        for j in 0..n {
            if g.jobs[j].kind == Kind::O {
                for p in g.jobs[j].parts() {
                    ex.hit("C01.output-compared");
                    let got = sim.disk.get(p);
                    if got != clean[j].get(p) {
                        v.push(viol("C01", "differs-from-clean-build", format!("{} materialised {:?} but a clean build gives {:?}", p, got, clean[j].get(p))));
                    }
                }
            }
        }
        for (p, val) in sim.disk.iter() {
            if g.jobs.iter().any(|j| j.kind == Kind::O && j.parts().contains(&&p[..])) && (val.contains("MISSING") || val.contains("CORRUPT")) {
                v.push(viol("C01", "poisoned-output", format!("{} = {}", p, val)));
            }
        }
    }
    if on(m, 2) {
        for j in 0..n {
            if let Some(val) = &sim.val[j] {
                if val.values().any(|x| x.contains("MISSING")) {
                    v.push(viol("C02", "consumed-missing-input", format!("{} was executed with a missing input: {:?}", g.jobs[j].id, val)));
                }
            }
        }
    }
    sim.viol.extend(v);
    Some(Terminal {
        disp,
        started: sim.started.clone(),
        hist: nh,
        disk: sim.disk.clone(),
        aborted: sim.aborted,
        any_failed,
        driver_fault: sim.aborted || sim.res.iter().any(|r| matches!(r, Res::Failed | Res::AbortedRunning)),
        offered: sim.offered.clone(),
    })
}

/// link records `X!!!id` of the input history whose upstream X is not a job of the current graph
fn old_links_into(cfg: &Cfg, id: &str) -> Vec<String> {
    let suffix = format!("!!!{}", id);
    cfg.hist
        .keys()
        .filter(|k| k.ends_with(&suffix) && k.len() > suffix.len())
        .filter(|k| {
            let x = &k[..k.len() - suffix.len()];
            !x.contains("!!!") && cfg.graph.idx(x).is_none()
        })
        .cloned()
        .collect()
}

/// C18: records of absent jobs kept (unless superseded), removed dependencies
/// dropped, nothing invented
pub fn check_c18(cfg: &Cfg, nh: &Hist, disp: &[Disp], v: &mut Vec<Viol>, ex: &mut Exercised) {
    let g = &cfg.graph;
    let present_ids: HashSet<&str> = g.jobs.iter().map(|j| &j.id[..]).collect();
    let mut part_owner: BTreeMap<&str, &str> = BTreeMap::new();
    for j in g.jobs.iter() {
        for p in j.parts() {
            part_owner.insert(p, &j.id);
        }
    }
    // X is superseded: absent, and one of its outputs is now produced by a present job of a different name
    let superseded = |x: &str| -> bool { !present_ids.contains(x) && x.split(":::").any(|p| part_owner.get(p).map(|o| *o != x).unwrap_or(false)) };
    for (k, val) in cfg.hist.iter() {
        let (a, b) = match k.split_once("!!!") {
            Some((a, b)) => (a, b),
            None => (&k[..], ""),
        };
        let is_edge = k.contains("!!!") && !b.is_empty();
        if is_edge {
            let both_present = present_ids.contains(a) && present_ids.contains(b);
            if both_present {
                if !g.has_edge_ids(a, b) {
                    ex.hit("C18.removed-dependency");
                    if nh.contains_key(k) {
                        v.push(viol("C18", "removed-dependency-kept", format!("record {} of a removed dependency is kept", k)));
                    }
                }
            } else if superseded(a) {
                // X!!!d says what the present job d last consumed from the superseded id X; it cannot
                // vouch for a rewritten file.  If d got a new link in this evaluation (it ran or was validly
                // skipped) the old one must go; if d failed or was never started, the old link is all there
                // is to validate d with on the resume (C09), so kept or dropped are both accepted here.
                let consumer_unsettled = g.idx(b).map(|j| !matches!(disp[j], Disp::Ok | Disp::Skipped)).unwrap_or(false);
                if !consumer_unsettled {
                    ex.hit("C18.superseded");
                    if nh.contains_key(k) {
                        v.push(viol("C18", "superseded-kept", format!("record {} of superseded job {} is kept", k, a)));
                    }
                } else if nh.get(k).map(|x| x != val).unwrap_or(false) {
                    v.push(viol("C18", "absent-changed", format!("record {} of a superseded job was rewritten: {:?}", k, nh.get(k))));
                }
            } else if superseded(b) {
                // u!!!X: kept or dropped are both fine
            } else {
                ex.hit("C18.absent");
                if nh.get(k) != Some(val) {
                    v.push(viol("C18", "absent-changed", format!("record {} involving an absent job changed/dropped: {:?}", k, nh.get(k))));
                }
            }
        } else if !present_ids.contains(a) {
            if superseded(a) {
                ex.hit("C18.superseded");
                if nh.contains_key(k) {
                    v.push(viol("C18", "superseded-kept", format!("record {} of superseded job {} is kept", k, a)));
                }
            } else {
                ex.hit("C18.absent");
                if nh.get(k) != Some(val) {
                    v.push(viol("C18", "absent-changed", format!("record {} of an absent job changed/dropped: {:?}", k, nh.get(k))));
                }
            }
        }
    }
    for k in nh.keys() {
        if cfg.hist.contains_key(k) {
            continue;
        }
        let (a, b) = match k.split_once("!!!") {
            Some((a, b)) => (a, b),
            None => (&k[..], ""),
        };
        let ok = if k.contains("!!!") && !b.is_empty() { g.has_edge_ids(a, b) } else { present_ids.contains(a) };
        ex.hit("C18.new-record");
        if !ok {
            v.push(viol("C18", "invented-record", format!("new record {} describes nothing in the graph", k)));
        }
    }
}

fn queries(e: &mut Engine) -> (bool, Vec<String>, Vec<String>, Vec<String>, Vec<String>, Vec<String>) {
    let s = |h: HashSet<String>| {
        let mut v: Vec<String> = h.into_iter().collect();
        v.sort();
        v
    };
    (
        e.is_finished(),
        s(e.query_ready_to_run()),
        s(e.query_jobs_running()),
        s(e.query_ready_for_cleanup()),
        s(e.query_failed()),
        s(e.query_upstream_failed()),
    )
}

/// C20: every illegal call at this state is rejected with APIError and changes nothing
pub fn misuse_checks(sim: &mut Sim, ex: &mut Exercised) -> u64 {
    let cfg = sim.cfg.clone();
    let n = cfg.graph.n();
    let snap0 = sim.eng.verif_snapshot();
    // the reference answers come from a copy: is_finished() is a query with a side effect (it latches
    // the start status), and the engine under test must not be touched before the illegal calls
    let mut reference_copy = sim.fork();
    let q0 = queries(&mut reference_copy.eng);
    let hist0 = if q0.0 {
        std::panic::catch_unwind(std::panic::AssertUnwindSafe(|| reference_copy.eng.new_history().ok())).unwrap_or(None)
    } else {
        None
    };
    let outs0: Vec<Option<String>> = (0..n)
        .map(|j| match reference_copy.eng.get_job_output(&cfg.graph.jobs[j].id) {
            JobOutputResult::Done(s) => Some(s),
            _ => None,
        })
        .collect();
    let ready = &q0.1;
    let running = &q0.2;
    let cleanup = &q0.3;
    // before the start-up, event_startup is the one legal call
    let mut calls: Vec<(String, u8, usize)> = if sim.startup_done { vec![("event_startup".into(), 0, 0)] } else { vec![] };
    if !sim.startup_done {
        ex.hit("C20.before-startup");
    }
    for j in 0..n {
        let id = &cfg.graph.jobs[j].id;
        if !ready.contains(id) {
            calls.push((format!("event_now_running({})", id), 1, j));
        }
        if !running.contains(id) {
            calls.push((format!("event_job_finished_success({})", id), 2, j));
            calls.push((format!("event_job_finished_failure({})", id), 3, j));
        }
        if !cleanup.contains(id) {
            calls.push((format!("event_job_cleanup_done({})", id), 4, j));
        }
    }
    let mut count = 0;
    let mut out = Vec::new();
    for (name, what, j) in calls {
        count += 1;
        ex.hit("C20.illegal-call");
        let mut f = sim.fork();
        verif_hooks::take_transitions();
        let id = cfg.graph.jobs.get(j).map(|x| x.id.clone()).unwrap_or_default();
        let r = f.call(&name, |e| match what {
            0 => e.event_startup(),
            1 => e.event_now_running(&id),
            2 => e.event_job_finished_success(&id, "bogus=bogus".to_string()),
            3 => e.event_job_finished_failure(&id),
            _ => e.event_job_cleanup_done(&id),
        });
        let trans = verif_hooks::take_transitions();
        let kind = name.split('(').next().unwrap().to_string();
        match r {
            Some(Err(PPGEvaluatorError::APIError(_))) => {}
            Some(Ok(())) => out.push(viol("C20", "accepted", format!("{} accepted", name)).tag("call", &kind)),
            Some(Err(e)) => out.push(viol("C20", "wrong-error", format!("{} wrong error {:?}", name, e)).tag("call", &kind)),
            None => out.push(viol("C20", "panicked", format!("{} panicked", name)).tag("call", &kind)),
        }
        if !trans.is_empty() {
            out.push(viol("C20", "side-effect-transition", format!("{} caused transitions {:?}", name, trans)).tag("call", &kind));
        }
        if !f.dead {
            let snap1 = f.eng.verif_snapshot();
            if snap1 != snap0 {
                out.push(viol("C20", "side-effect-state", format!("{} changed engine state", name)).tag("call", &kind));
            }
            let q1 = queries(&mut f.eng);
            if q1 != q0 {
                out.push(viol("C20", "side-effect-queries", format!("{} changed query answers {:?} -> {:?}", name, q0, q1)).tag("call", &kind));
            }
            let outs1: Vec<Option<String>> = (0..n)
                .map(|j| match f.eng.get_job_output(&cfg.graph.jobs[j].id) {
                    JobOutputResult::Done(s) => Some(s),
                    _ => None,
                })
                .collect();
            if outs1 != outs0 {
                out.push(viol("C20", "side-effect-output", format!("{} changed job outputs", name)).tag("call", &kind));
            }
            if q1.0 {
                // the engine may be left in a state in which new_history() panics: that is a side effect too
                match std::panic::catch_unwind(std::panic::AssertUnwindSafe(|| f.eng.new_history().ok())) {
                    Ok(h1) => {
                        if h1 != hist0 {
                            out.push(viol("C20", "side-effect-history", format!("{} changed the history", name)).tag("call", &kind));
                        }
                    }
                    Err(_) => out.push(viol("C20", "side-effect-history-panics", format!("after the rejected {} new_history() panics", name)).tag("call", &kind)),
                }
            }
        }
        // the panic recorded by call() belongs to C20 here, not C06
        f.viol.clear();
    }
    sim.viol.extend(out);
    count
}
