//! Which families decide which property, per tier; CLI entry points.
use crate::chain::*;
use crate::families;
use crate::model::*;
use crate::monitors::{mon, Mon, ALL};
use crate::report::*;
use std::collections::BTreeMap;
use std::path::PathBuf;
use std::sync::atomic::AtomicBool;
use std::sync::Mutex;
use std::time::{Duration, Instant};

pub struct Run {
    pub spec: Spec,
    pub universes: Vec<Universe>,
}

fn pnum(id: &str) -> Option<u32> {
    id.strip_prefix('C').and_then(|x| x.parse().ok()).filter(|x| (1..=20).contains(x))
}

fn s(name: &str, depth: usize, m: Mon) -> Spec {
    Spec::new(name, depth, m)
}

/// level claimed per property (MANIFEST.json mirrors this)
pub fn level_of(p: u32) -> &'static str {
    match p {
        8 | 9 | 10 => "fault_enumeration",
        19 => "exploration",
        _ => "model_checking",
    }
}

/// monitor clauses that must have been exercised, else the run is vacuous
fn required_clauses(p: u32) -> Vec<&'static str> {
    match p {
        1 => vec!["C01.output-compared"],
        2 => vec!["C02.ready-with-upstream"],
        3 => vec!["C03.skipped-relevant"],
        4 => vec!["C04.job"],
        5 => vec!["C05.state"],
        6 => vec![],
        7 => vec!["C07.state-with-failure", "C07.blocked", "C07.twin"],
        8 => vec!["C08.failed", "C08.failed-job-followed-up"],
        9 => vec!["C09.never-started", "C09.resume-job", "C09.resume-finished"],
        10 => vec!["C10.after-abort"],
        11 => vec!["C11.executed", "C11.skipped"],
        12 => vec!["C12.noop-terminal"],
        13 => vec!["C13.offered", "C13.must-be-offered", "C13.offer-moment"],
        14 => vec!["C14.config-with-ff-terminal", "C14.declaration-order-variant"],
        15 => vec!["C15.twin-pair-with-noisy-history"],
        16 => vec!["C16.validated-ephemeral-reexecuted", "C16.changed-output-state", "C16.changed-output-terminal"],
        17 => vec!["C17.transition", "C17.state"],
        18 => vec!["C18.removed-dependency", "C18.absent", "C18.new-record", "C18.superseded"],
        20 => vec!["C20.illegal-call"],
        _ => vec![],
    }
}

fn shapes_named(names: &[&str]) -> Vec<Universe> {
    families::shapes(true).into_iter().filter(|u| names.iter().any(|n| u.label == *n)).collect()
}

fn slots_matching(n: usize, pats: &[&str]) -> Vec<Universe> {
    families::slots(n).into_iter().filter(|u| pats.iter().any(|p| u.label.ends_with(&format!(":{}", p)))).collect()
}

pub fn plan(p: u32, tier: &str) -> Vec<Run> {
    let m = mon(p);
    let thorough = tier == "thorough";
    let mut runs: Vec<Run> = Vec::new();
    let mut add = |spec: Spec, universes: Vec<Universe>| runs.push(Run { spec, universes });
    // building blocks -------------------------------------------------------
    let s3 = |follow: bool| {
        let mut x = s(if follow { "S3D2+follow" } else { "S3D2" }, 2, m);
        x.follow = follow;
        x
    };
    let s4 = |follow: bool| {
        let mut x = s(if follow { "S4D1+follow" } else { "S4D1" }, 1, m);
        x.follow = follow;
        x
    };
    let s3d3 = || s("S3D3", 3, m);
    let noise = |name: &str, depth: usize, follow: bool, twin: bool| {
        let mut x = s(name, depth, m);
        x.noise = true;
        x.cmp = Cmp::Noise;
        x.follow = follow;
        x.twin = twin;
        x
    };
    let rename = |name: &str, conv: Conv, cmp: Cmp| {
        let mut r = s(name, 3, m);
        r.conv = conv;
        r.cmp = cmp;
        r.faults = vec![false, true, false];
        r
    };
    let shapes_spec = |name: &str, depth: usize, follow: bool| {
        let mut x = s(name, depth, m);
        x.follow = follow;
        x
    };
    let s4d2k = |name: &str, k: usize, faults: Vec<bool>| {
        let mut x = s(name, 2, m);
        x.edit_bound = Some(k);
        x.faults = faults;
        x
    };
    // 4 slots, two evaluations: failure-free build of any sub-configuration, then at most one edit
    // (job or dependency added/removed, one input changed, one output deleted) with every fault
    let s4d2ff = || {
        let mut x = s("S4D2-k1-ff", 2, m);
        x.edit_bound = Some(1);
        x.faults = vec![false, true];
        x
    };
    // late-requirement families (6-7 job graphs; the second evaluation changes inputs / deletes outputs)
    let late = |name: &str, faults2: bool| {
        let mut x = s(name, 2, m);
        x.faults = vec![false, faults2];
        x
    };
    // chains of up to six Ephemeral/Output jobs with one changing side input (<= 2 changes per step)
    let chains = |faults2: bool| {
        let mut x = s(if faults2 { "chains6" } else { "chains6-ff" }, 2, m);
        x.faults = vec![false, faults2];
        x.edit_bound = Some(2);
        x
    };
    // longer chains of evaluations where faults are restricted
    let deep3 = |name: &str, depth: usize, faults: Vec<bool>| {
        let mut x = s(name, depth, m);
        x.faults = faults;
        x
    };
    let late3u = |k: usize| {
        let mut x = late("late3xu-OE", true);
        x.edit_bound = Some(k);
        x.name = format!("late3xu-OE-k{}", k);
        x
    };
    // 6-job late family, Output/Ephemeral slots: build, x changes with every fault, then the resume
    let late3f = || {
        let mut x = late("late3x-OE-k1+follow", true);
        x.edit_bound = Some(1);
        x.follow = true;
        x
    };
    // every full 4-slot graph on its own: build, one changed input or deleted output with every fault, resume
    let alone4 = || {
        let mut f4 = s("S4-alone-D2-k1-ff+follow", 2, m);
        f4.edit_bound = Some(1);
        f4.faults = vec![false, true];
        f4.follow = true;
        f4
    };
    // a multi-output job whose outputs change independently, production naming and comparison
    let split = |name: &str, follow: bool| {
        let mut x = s(name, 3, m);
        x.noise = true;
        x.cmp = Cmp::Prod;
        x.conv = Conv::Parts;
        x.faults = vec![false, true, false];
        x.follow = follow;
        x
    };
    let eph_shapes = ["late-requirement", "E-E-O+A", "E-E-E-O+A", "E-E-O+A-mid", "E-O-E-O"];
    match p {
        1 => {
            add(s3(true), families::slots(3));
            add(s4(false), families::slots(4));
            add(s4d2ff(), families::slots(4));
            add(late3f(), families::late3x_oe());
            add(alone4(), families::slots_each_alone(4));
            add(split("split-O", true), families::split_outputs(Kind::O, false));
            add(split("split-E", true), families::split_outputs(Kind::E, false));
            add(split("merge", false), families::merge_outputs());
            add(late("latepair", true), families::with_declaration_variants(families::late_pair()));
            add(late("bigshapes", true), families::with_declaration_variants(families::big_shapes()));
            add(late("ephdeep", true), families::with_declaration_variants(families::eph_deep_trees()));
            add(late("ephtrees", true), families::with_declaration_variants(families::eph_trees()));
            add(late("ephtrees3", true), families::with_declaration_variants(families::eph_trees3()));
            add(chains(true), families::chains(6));
            let mut cm = chains(true);
            cm.name = "chainsm4".into();
            add(cm, families::chains_multi(4, 2));
            let mut ig = s("S3D2-ignore", 2, m);
            ig.faults = vec![true, false];
            add(ig, families::slots_ignore(3));
            add(rename("rename-prod", Conv::Parts, Cmp::Prod), families::rename_opts(true, Kind::O, false));
            add(rename("rename-test", Conv::JobIds, Cmp::Plain), families::rename_opts(false, Kind::O, false));
            add(rename("rename3-prod", Conv::Parts, Cmp::Prod), families::rename3());
            add(deep3("S3D4-ff", 4, vec![false; 4]), families::slots(3));
            add(deep3("S3D3-f010", 3, vec![false, true, false]), families::slots(3));
            let mut d43 = deep3("S4D3-k1-ff", 3, vec![false; 3]);
            d43.edit_bound = Some(1);
            add(d43, families::slots(4));
            if thorough {
                let mut l3f = late3f();
                l3f.name = "late3x-k1+follow".into();
                add(l3f, families::late_gadget(3, true));
                // 4 slots: build, one edit with every fault, then the resume / no-op evaluation
                let mut f4 = s("S4D2-k1-ff+follow", 2, m);
                f4.edit_bound = Some(1);
                f4.faults = vec![false, true];
                f4.follow = true;
                add(f4, families::slots_full_only(4));
                let mut lp = s("latepair-faulty-first+follow", 2, m);
                lp.follow = true;
                add(lp, families::late_pair());
                let mut cf = chains(true);
                cf.follow = true;
                cf.name = "chains6+follow".into();
                add(cf, families::chains(6));
                add(s3d3(), families::slots(3));
                let mut rm = s("S3D2-remove+follow", 2, m);
                rm.fail_mode = FailMode::Remove;
                rm.follow = true;
                add(rm, families::slots(3));
                let mut ue = s("S3D2-unread-edge", 2, m);
                ue.faults = vec![true, false];
                add(ue, families::slots_unread_edge(3));
                add(rename("rename-prod-full", Conv::Parts, Cmp::Prod), families::rename(true, Kind::O));
                add(rename("rename-prod-ephemeral", Conv::Parts, Cmp::Prod), families::rename_opts(true, Kind::E, false));
                add(shapes_spec("shapes-D2+follow", 2, true), families::shapes(true));
                add(s4d2k("S4D2-k1", 1, vec![true, true]), families::slots_full_only(4));
            }
        }
        2 => {
            add(s3(false), families::slots(3));
            add(s4(false), families::slots(4));
            add(s4d2ff(), families::slots(4));
            add(late3f(), families::late3x_oe());
            add(deep3("S3D4-ff", 4, vec![false; 4]), families::slots(3));
            add(deep3("S3D3-f010", 3, vec![false, true, false]), families::slots(3));
            add(late("late2x", true), families::late_gadget(2, true));
            add(late3u(1), families::late3xu_oe());
            add(late("latepair", true), families::with_declaration_variants(families::late_pair()));
            add(late("bigshapes", true), families::with_declaration_variants(families::big_shapes()));
            add(late("ephdeep", true), families::with_declaration_variants(families::eph_deep_trees()));
            add(late("ephtrees", true), families::with_declaration_variants(families::eph_trees()));
            add(late("ephtrees3", true), families::with_declaration_variants(families::eph_trees3()));
            add(chains(true), families::chains(6));
            let mut cm = chains(true);
            cm.name = "chainsm4".into();
            add(cm, families::chains_multi(4, 2));
            add(shapes_spec("eph-shapes-D2", 2, false), shapes_named(&eph_shapes));
            if thorough {
                let mut l3f = late3f();
                l3f.name = "late3x-k1+follow".into();
                add(l3f, families::late_gadget(3, true));
                let mut l3n = late("late3xun-OE-k1", true);
                l3n.edit_bound = Some(1);
                add(l3n, families::late3xun_oe());
                // the same families under the reversed node / edge declaration orders, faults included
                let of = |mut x: Spec, name: &str| {
                    x.orders = Orders::Few;
                    x.orders_faulty = true;
                    x.name = name.to_string();
                    x
                };
                add(of(late("x", true), "late2x-orders-few-faulty"), families::late_gadget(2, true));
                add(of(late("x", true), "latepair-orders-few-faulty"), families::late_pair());
                add(of(late("x", true), "ephtrees-orders-few-faulty"), families::eph_trees());
                add(of(s4d2ff(), "S4D2-k1-ff-orders-few-faulty"), families::slots_full_only(4));
                let mut l3u = late("late3xu-k1", true);
                l3u.edit_bound = Some(1);
                add(l3u, families::late_gadget_opts(3, true, false, None));
                // thorough: the full 6-job late-requirement family, longer chains, faults in both evaluations
                add(late("late3x", true), families::late_gadget(3, true));
                let mut c7 = chains(true);
                c7.name = "chains7".into();
                add(c7, families::chains(7));
                let mut lp = s("latepair-faulty-first+follow", 2, m);
                lp.follow = true;
                add(lp, families::late_pair());
                let mut l2 = s("late2x-faulty-first+follow", 2, m);
                l2.follow = true;
                add(l2, families::late_gadget(2, true));
                add(s3d3(), families::slots(3));
                add(shapes_spec("shapes-D2+follow", 2, true), families::shapes(true));
                add(shapes_spec("eph-shapes-D3", 3, false), shapes_named(&["late-requirement", "E-E-O+A", "E-E-O+A-mid"]));
                add(s4d2k("S4D2-k1", 1, vec![true, true]), families::slots_full_only(4));
                let mut o = s("S4D1-orders", 1, m);
                o.orders = Orders::AllNodes;
                o.faults = vec![false];
                add(o, families::slots_full_only(4));
            }
        }
        3 | 4 => {
            add(s3(true), families::slots(3));
            add(s4(false), families::slots(4));
            add(s4d2ff(), families::slots(4));
            add(late3f(), families::late3x_oe());
            add(alone4(), families::slots_each_alone(4));
            add(split("split-O", true), families::split_outputs(Kind::O, false));
            add(split("split-E", true), families::split_outputs(Kind::E, false));
            add(split("merge", false), families::merge_outputs());
            add(late("late2x", true), families::late_gadget(2, true));
            add(late("latepair", true), families::with_declaration_variants(families::late_pair()));
            add(late("bigshapes", true), families::with_declaration_variants(families::big_shapes()));
            add(late("ephdeep", true), families::with_declaration_variants(families::eph_deep_trees()));
            add(late("ephtrees", true), families::with_declaration_variants(families::eph_trees()));
            add(late("ephtrees3", true), families::with_declaration_variants(families::eph_trees3()));
            add(chains(true), families::chains(6));
            let mut cm = chains(true);
            cm.name = "chainsm4".into();
            add(cm, families::chains_multi(4, 2));
            add(rename("rename-prod", Conv::Parts, Cmp::Prod), families::rename_opts(true, Kind::O, false));
            add(rename("rename-test", Conv::JobIds, Cmp::Plain), families::rename_opts(false, Kind::O, false));
            add(rename("rename3-prod", Conv::Parts, Cmp::Prod), families::rename3());
            add(noise("S3D2-noise", 2, false, false), families::slots(3));
            add(noise("S3D3-noise-E-consumers", 3, false, false), slots_matching(3, &["EOO", "EEO", "AEO"]));
            // comparisons that depend on the direction of the question and on the job ids it is asked for
            let mut mono = noise("S3D2-mono+follow", 2, true, false);
            mono.cmp = Cmp::Mono;
            add(mono, families::slots(3));
            let mut newer = noise("S3D2-newer+follow", 2, true, false);
            newer.cmp = Cmp::Newer;
            add(newer, families::slots(3));
            let mut xe = noise("S3D3-exacteph-E-consumers", 3, false, false);
            xe.cmp = Cmp::ExactEph;
            add(xe, slots_matching(3, &["EOO", "EEO", "AEO", "OEO"]));
            // a job that ignores its inputs is re-executed with the same content and a new timestamp when an
            // input changes: its consumers' link records then differ from its own record in text only
            let mut xi = noise("S3D2-ignore-exacteph+follow", 2, true, false);
            xi.cmp = Cmp::ExactEph;
            // (only the kind vectors with an Ephemeral: the comparison treats all others alike)
            add(xi, families::slots_ignore(3).into_iter().filter(|u| u.label.split(':').nth(1).unwrap_or("").contains('E')).collect());
            let mut pr = noise("S3D2-prod+follow", 2, true, false);
            pr.cmp = Cmp::Prod;
            pr.conv = Conv::Parts;
            add(pr, families::slots(3));
            add(deep3("S3D4-ff", 4, vec![false; 4]), families::slots(3));
            add(deep3("S3D3-f010", 3, vec![false, true, false]), families::slots(3));
            if thorough {
                let mut d43 = deep3("S4D3-k1-ff", 3, vec![false; 3]);
                d43.edit_bound = Some(1);
                add(d43, families::slots(4));
            }
            if p == 4 {
                let mut ig = s("S3D2-ignore", 2, m);
                ig.faults = vec![true, false];
                add(ig, families::slots_ignore(3));
            }
            if thorough {
                let mut l3f = late3f();
                l3f.name = "late3x-k1+follow".into();
                add(l3f, families::late_gadget(3, true));
                // 4 slots: build, one edit with every fault, then the resume / no-op evaluation
                let mut f4 = s("S4D2-k1-ff+follow", 2, m);
                f4.edit_bound = Some(1);
                f4.faults = vec![false, true];
                f4.follow = true;
                add(f4, families::slots_full_only(4));
                let mut lp = s("latepair-faulty-first+follow", 2, m);
                lp.follow = true;
                add(lp, families::late_pair());
                let mut cf = chains(true);
                cf.follow = true;
                cf.name = "chains6+follow".into();
                add(cf, families::chains(6));
                add(s3d3(), families::slots(3));
                add(noise("S3D3-noise", 3, false, false), families::slots(3));
                let mut pr = s("S3D2-prod", 2, m);
                pr.cmp = Cmp::Prod;
                pr.conv = Conv::Parts;
                pr.noise = true;
                add(pr, families::slots(3));
                add(rename("rename-prod-full", Conv::Parts, Cmp::Prod), families::rename(true, Kind::O));
                add(shapes_spec("shapes-D2+follow", 2, true), families::shapes(true));
                add(s4d2k("S4D2-k1", 1, vec![true, true]), families::slots_full_only(4));
            }
        }
        5 => {
            add(s3(false), families::slots(3));
            add(s4(false), families::slots(4));
            add(s4d2ff(), families::slots(4));
            // a job id re-declared with another kind between evaluations (robustness only: a kind change is a
            // change of behaviour the engine is not told about, so the value-based oracles do not apply)
            add(s("kindswap2-D3", 3, m), families::slots_kindswap(2));
            add(late("late2x", true), families::late_gadget(2, true));
            add(late3u(2), families::late3xu_oe());
            add(late("latepair", true), families::with_declaration_variants(families::late_pair()));
            let mut l4 = late("late4row-k1", true);
            l4.edit_bound = Some(1);
            add(l4, families::late4_row());
            add(late("bigshapes", true), families::with_declaration_variants(families::big_shapes()));
            add(late("ephdeep", true), families::with_declaration_variants(families::eph_deep_trees()));
            add(late("ephtrees", true), families::with_declaration_variants(families::eph_trees()));
            add(late("ephtrees3", true), families::with_declaration_variants(families::eph_trees3()));
            add(chains(true), families::chains(6));
            let mut cm = chains(true);
            cm.name = "chainsm4".into();
            add(cm, families::chains_multi(4, 2));
            let mut o = s("S3D2-orders", 2, m);
            o.orders = Orders::AllNodes;
            add(o, families::slots(3));
            add(shapes_spec("shapes-D2", 2, false), families::shapes(true));
            if thorough {
                let mut l3n = late("late3xun-OE-k1", true);
                l3n.edit_bound = Some(1);
                add(l3n, families::late3xun_oe());
                // the same families under the reversed node / edge declaration orders, faults included
                let of = |mut x: Spec, name: &str| {
                    x.orders = Orders::Few;
                    x.orders_faulty = true;
                    x.name = name.to_string();
                    x
                };
                add(of(late("x", true), "late2x-orders-few-faulty"), families::late_gadget(2, true));
                add(of(late("x", true), "latepair-orders-few-faulty"), families::late_pair());
                add(of(late("x", true), "ephtrees-orders-few-faulty"), families::eph_trees());
                add(of(s4d2ff(), "S4D2-k1-ff-orders-few-faulty"), families::slots_full_only(4));
                let mut ks = s("kindswap3-D2", 2, m);
                ks.faults = vec![false, true];
                add(ks, families::slots_kindswap(3));
                let mut l3u = late("late3xu-k1", true);
                l3u.edit_bound = Some(1);
                add(l3u, families::late_gadget_opts(3, true, false, None));
                // thorough: the full 6-job late-requirement family, longer chains, faults in both evaluations
                add(late("late3x", true), families::late_gadget(3, true));
                let mut c7 = chains(true);
                c7.name = "chains7".into();
                add(c7, families::chains(7));
                let mut lp = s("latepair-faulty-first+follow", 2, m);
                lp.follow = true;
                add(lp, families::late_pair());
                let mut l2 = s("late2x-faulty-first+follow", 2, m);
                l2.follow = true;
                add(l2, families::late_gadget(2, true));
                add(s3d3(), families::slots(3));
                let mut o = s("S4D1-orders", 1, m);
                o.orders = Orders::AllNodes;
                add(o, families::slots_full_only(4));
                add(s4d2k("S4D2-k1", 1, vec![true, true]), families::slots_full_only(4));
                add(shapes_spec("shapes-D2+follow", 2, true), families::shapes(true));
                let mut s5 = s("S5D1-full", 1, m);
                s5.faults = vec![true];
                add(s5, families::slots_full_only(5));
            }
        }
        6 => {
            add(s3(true), families::slots(3));
            add(s4(false), families::slots(4));
            add(s4d2ff(), families::slots(4));
            // runs of Ephemerals below an Always consumer, three declaration orders
            let mut ea = late("ephchainsA-orders-few", true);
            ea.orders = Orders::Few;
            add(ea, families::eph_chains_below_always());
            add(split("split-O", true), families::split_outputs(Kind::O, false));
            add(split("split-E", true), families::split_outputs(Kind::E, false));
            add(split("merge", false), families::merge_outputs());
            // a job id re-declared with another kind between evaluations (robustness only: a kind change is a
            // change of behaviour the engine is not told about, so the value-based oracles do not apply)
            add(s("kindswap2-D3", 3, m), families::slots_kindswap(2));
            add(deep3("S3D4-ff", 4, vec![false; 4]), families::slots(3));
            add(deep3("S3D3-f010", 3, vec![false, true, false]), families::slots(3));
            add(late("late2x", true), families::late_gadget(2, true));
            add(late3u(2), families::late3xu_oe());
            add(late("latepair", true), families::with_declaration_variants(families::late_pair()));
            let mut l4 = late("late4row-k1", true);
            l4.edit_bound = Some(1);
            add(l4, families::late4_row());
            add(late("bigshapes", true), families::with_declaration_variants(families::big_shapes()));
            add(late("ephdeep", true), families::with_declaration_variants(families::eph_deep_trees()));
            add(late("ephtrees", true), families::with_declaration_variants(families::eph_trees()));
            add(late("ephtrees3", true), families::with_declaration_variants(families::eph_trees3()));
            add(chains(true), families::chains(6));
            let mut cm = chains(true);
            cm.name = "chainsm4".into();
            add(cm, families::chains_multi(4, 2));
            add(shapes_spec("shapes-D2", 2, false), families::shapes(true));
            add(rename("rename-prod", Conv::Parts, Cmp::Prod), families::rename_opts(false, Kind::O, false));
            if thorough {
                let mut l3n = late("late3xun-OE-k1", true);
                l3n.edit_bound = Some(1);
                add(l3n, families::late3xun_oe());
                // the same families under the reversed node / edge declaration orders, faults included
                let of = |mut x: Spec, name: &str| {
                    x.orders = Orders::Few;
                    x.orders_faulty = true;
                    x.name = name.to_string();
                    x
                };
                add(of(late("x", true), "late2x-orders-few-faulty"), families::late_gadget(2, true));
                add(of(late("x", true), "latepair-orders-few-faulty"), families::late_pair());
                add(of(late("x", true), "ephtrees-orders-few-faulty"), families::eph_trees());
                add(of(s4d2ff(), "S4D2-k1-ff-orders-few-faulty"), families::slots_full_only(4));
                let mut ks = s("kindswap3-D2", 2, m);
                ks.faults = vec![false, true];
                add(ks, families::slots_kindswap(3));
                let mut l3u = late("late3xu-k1", true);
                l3u.edit_bound = Some(1);
                add(l3u, families::late_gadget_opts(3, true, false, None));
                // thorough: the full 6-job late-requirement family, longer chains, faults in both evaluations
                add(late("late3x", true), families::late_gadget(3, true));
                let mut c7 = chains(true);
                c7.name = "chains7".into();
                add(c7, families::chains(7));
                let mut lp = s("latepair-faulty-first+follow", 2, m);
                lp.follow = true;
                add(lp, families::late_pair());
                let mut l2 = s("late2x-faulty-first+follow", 2, m);
                l2.follow = true;
                add(l2, families::late_gadget(2, true));
                add(s3d3(), families::slots(3));
                add(noise("S3D3-noise", 3, false, false), families::slots(3));
                add(s4(true), families::slots(4));
                add(shapes_spec("shapes-D2+follow", 2, true), families::shapes(true));
                add(s4d2k("S4D2-k1", 1, vec![true, true]), families::slots_full_only(4));
                let mut rc = s("S3D2-reconsider", 2, m);
                rc.reconsider = true;
                add(rc, families::slots(3));
                add(rename("rename-prod-full", Conv::Parts, Cmp::Prod), families::rename(true, Kind::O));
            }
        }
        7 => {
            add(s3(false), families::slots(3));
            add(s4(false), families::slots(4));
            add(s4d2ff(), families::slots(4));
            add(late("late2x", true), families::late_gadget(2, true));
            add(late3u(2), families::late3xu_oe());
            add(late("latepair", true), families::with_declaration_variants(families::late_pair()));
            let mut l4 = late("late4row-k1", true);
            l4.edit_bound = Some(1);
            add(l4, families::late4_row());
            add(late("bigshapes", true), families::with_declaration_variants(families::big_shapes()));
            add(late("ephdeep", true), families::with_declaration_variants(families::eph_deep_trees()));
            add(late("ephtrees", true), families::with_declaration_variants(families::eph_trees()));
            add(late("ephtrees3", true), families::with_declaration_variants(families::eph_trees3()));
            add(chains(true), families::chains(6));
            let mut cm = chains(true);
            cm.name = "chainsm4".into();
            add(cm, families::chains_multi(4, 2));
            add(s("S3D2-volatile", 2, m), families::slots_volatile(3));
            add(shapes_spec("shapes-D2", 2, false), families::shapes(true));
            if thorough {
                let mut l3n = late("late3xun-OE-k1", true);
                l3n.edit_bound = Some(1);
                add(l3n, families::late3xun_oe());
                // the same families under the reversed node / edge declaration orders, faults included
                let of = |mut x: Spec, name: &str| {
                    x.orders = Orders::Few;
                    x.orders_faulty = true;
                    x.name = name.to_string();
                    x
                };
                add(of(late("x", true), "late2x-orders-few-faulty"), families::late_gadget(2, true));
                add(of(late("x", true), "latepair-orders-few-faulty"), families::late_pair());
                add(of(late("x", true), "ephtrees-orders-few-faulty"), families::eph_trees());
                add(of(s4d2ff(), "S4D2-k1-ff-orders-few-faulty"), families::slots_full_only(4));
                let mut l3u = late("late3xu-k1", true);
                l3u.edit_bound = Some(1);
                add(l3u, families::late_gadget_opts(3, true, false, None));
                // thorough: the full 6-job late-requirement family, longer chains, faults in both evaluations
                add(late("late3x", true), families::late_gadget(3, true));
                let mut c7 = chains(true);
                c7.name = "chains7".into();
                add(c7, families::chains(7));
                let mut lp = s("latepair-faulty-first+follow", 2, m);
                lp.follow = true;
                add(lp, families::late_pair());
                let mut l2 = s("late2x-faulty-first+follow", 2, m);
                l2.follow = true;
                add(l2, families::late_gadget(2, true));
                add(s3d3(), families::slots(3));
                add(s4d2k("S4D2-k1", 1, vec![true, true]), families::slots_full_only(4));
                add(shapes_spec("shapes-D2+follow", 2, true), families::shapes(true));
                let mut s5 = s("S5D1-full", 1, m);
                s5.faults = vec![true];
                add(s5, families::slots_full_only(5));
            }
        }
        8 | 9 => {
            add(s3(true), families::slots(3));
            add(s4(true), families::slots(4));
            // two changes (the input changes and one output is missing), every fault, then the next evaluation
            if p == 8 {
                let mut l3 = late3f();
                l3.edit_bound = Some(2);
                l3.follow = false;
                l3.name = "late3x-OE-k2".into();
                add(l3, families::late3x_oe());
            } else {
                add(late3f(), families::late3x_oe());
            }
            // multi-output ids that fail or are interrupted
            let mut rn = rename("rename-prod+follow", Conv::Parts, Cmp::Prod);
            rn.follow = true;
            add(rn, families::rename_opts(false, Kind::O, false));
            // late failures under a comparison that tolerates textual differences: records of jobs that were
            // skipped and then turned upstream-failed must stay as they were, to the letter (finding F12)
            let mut lpn = noise("latepair-noise", 2, false, false);
            lpn.faults = vec![false, true];
            add(lpn, families::late_pair());
            let mut l2n = noise("late2x-noise", 2, false, false);
            l2n.faults = vec![false, true];
            add(l2n, families::late_gadget(2, true));
            // a rename that changes one output only, a shared Ephemeral that fails late, a shielded consumer
            let mut sr = split("split-rename+follow", true);
            sr.depth = 2;
            sr.faults = vec![false, true];
            add(sr, families::split_rename());
            if p == 9 {
                // 4 slots with history: build, one edit with every fault, resume (an Ephemeral with an Always
                // consumer is required at once on the resume, before its other consumers are looked at)
                let mut f4 = s("S4-alone-D2-k1-ff+follow", 2, m);
                f4.edit_bound = Some(1);
                f4.faults = vec![false, true];
                f4.follow = true;
                add(f4, families::slots_each_alone(4));
                // with the graphs that lack one free slot: the interrupted evaluation may add a consumer
                let mut l2 = late("late2x+removals+follow", true);
                l2.follow = true;
                add(l2, families::with_slot_removals(families::late_gadget_full(2, true, true, None, false)));
            } else {
                let mut l2 = late("late2x+follow", true);
                l2.follow = true;
                add(l2, families::late_gadget(2, true));
            }
            if p == 8 {
                // failures the engine declares itself (a validated Ephemeral changing its output);
                // not for C09: a volatile job's output differs between the resume and the uninterrupted run
                let mut v = s("S3D2-volatile+follow", 2, m);
                v.follow = true;
                add(v, families::slots_volatile(3));
            }
            if thorough {
                let mut l3f = late3f();
                l3f.name = "late3x-k1+follow".into();
                add(l3f, families::late_gadget(3, true));
                // 4 slots: build, one edit with every fault, then the resume / no-op evaluation
                let mut f4 = s("S4D2-k1-ff+follow", 2, m);
                f4.edit_bound = Some(1);
                f4.faults = vec![false, true];
                f4.follow = true;
                add(f4, families::slots_full_only(4));
                let mut lp = s("latepair-faulty-first+follow", 2, m);
                lp.follow = true;
                add(lp, families::late_pair());
                let mut cf = chains(true);
                cf.follow = true;
                cf.name = "chains6+follow".into();
                add(cf, families::chains(6));
                add(s3d3(), families::slots(3));
                let mut d3f = s("S3D3-follow-last", 3, m);
                d3f.follow = true;
                d3f.faults = vec![false, false, true];
                add(d3f, families::slots(3));
                add(shapes_spec("shapes-D2+follow", 2, true), families::shapes(true));
                let mut rm = s("S3D2-remove+follow", 2, m);
                rm.fail_mode = FailMode::Remove;
                rm.follow = true;
                add(rm, families::slots(3));
                add(noise("S3D2-noise+follow", 2, true, false), families::slots(3));
            }
        }
        10 => {
            add(s3(false), families::slots(3));
            add(s4(false), families::slots(4));
            add(s4d2ff(), families::slots(4));
            // a job id re-declared with another kind between evaluations (robustness only: a kind change is a
            // change of behaviour the engine is not told about, so the value-based oracles do not apply)
            add(s("kindswap2-D3", 3, m), families::slots_kindswap(2));
            add(late("late2x", true), families::late_gadget(2, true));
            add(late("latepair", true), families::with_declaration_variants(families::late_pair()));
            add(late("bigshapes", true), families::with_declaration_variants(families::big_shapes()));
            add(late("ephdeep", true), families::with_declaration_variants(families::eph_deep_trees()));
            add(late("ephtrees", true), families::with_declaration_variants(families::eph_trees()));
            add(late("ephtrees3", true), families::with_declaration_variants(families::eph_trees3()));
            add(chains(true), families::chains(6));
            let mut cm = chains(true);
            cm.name = "chainsm4".into();
            add(cm, families::chains_multi(4, 2));
            add(shapes_spec("shapes-D1", 1, false), families::shapes(true));
            if thorough {
                let mut ks = s("kindswap3-D2", 2, m);
                ks.faults = vec![false, true];
                add(ks, families::slots_kindswap(3));
                add(s3d3(), families::slots(3));
                add(shapes_spec("shapes-D2", 2, false), families::shapes(true));
                add(s4d2k("S4D2-k1", 1, vec![false, true]), families::slots_full_only(4));
                let mut s5 = s("S5D1-full", 1, m);
                s5.faults = vec![true];
                add(s5, families::slots_full_only(5));
            }
        }
        11 => {
            add(s3(true), families::slots(3));
            add(s4(false), families::slots(4));
            add(s4d2ff(), families::slots(4));
            add(late3f(), families::late3x_oe());
            add(alone4(), families::slots_each_alone(4));
            add(split("split-O", true), families::split_outputs(Kind::O, false));
            add(split("split-E", true), families::split_outputs(Kind::E, false));
            add(split("merge", false), families::merge_outputs());
            add(late("late2x+removals", true), families::with_slot_removals(families::late_gadget_full(2, true, true, None, false)));
            add(deep3("S3D4-ff", 4, vec![false; 4]), families::slots(3));
            add(deep3("S3D3-f010", 3, vec![false, true, false]), families::slots(3));
            add(rename("rename-prod", Conv::Parts, Cmp::Prod), families::rename_opts(false, Kind::O, false));
            add(noise("S3D2-noise", 2, false, false), families::slots(3));
            if thorough {
                let mut l3f = late3f();
                l3f.name = "late3x-k1+follow".into();
                add(l3f, families::late_gadget(3, true));
                // 4 slots: build, one edit with every fault, then the resume / no-op evaluation
                let mut f4 = s("S4D2-k1-ff+follow", 2, m);
                f4.edit_bound = Some(1);
                f4.faults = vec![false, true];
                f4.follow = true;
                add(f4, families::slots_full_only(4));
                let mut lp = s("latepair-faulty-first+follow", 2, m);
                lp.follow = true;
                add(lp, families::late_pair());
                let mut cf = chains(true);
                cf.follow = true;
                cf.name = "chains6+follow".into();
                add(cf, families::chains(6));
                add(s3d3(), families::slots(3));
                add(noise("S3D3-noise", 3, false, false), families::slots(3));
                add(shapes_spec("shapes-D2+follow", 2, true), families::shapes(true));
                add(rename("rename-prod-full", Conv::Parts, Cmp::Prod), families::rename(true, Kind::O));
            }
        }
        12 => {
            add(s3(true), families::slots(3));
            add(s4(true), families::slots(4));
            let mut ea = late("ephchainsA+follow", false);
            ea.follow = true;
            add(ea, families::with_declaration_variants(families::eph_chains_below_always()));
            add(late3f(), families::late3x_oe());
            add(alone4(), families::slots_each_alone(4));
            add(split("split-O", true), families::split_outputs(Kind::O, false));
            add(split("split-E", true), families::split_outputs(Kind::E, false));
            add(split("merge", false), families::merge_outputs());
            add(noise("S3D2-noise+follow", 2, true, false), families::slots(3));
            let mut mono = noise("S3D2-mono+follow", 2, true, false);
            mono.cmp = Cmp::Mono;
            add(mono, families::slots(3));
            let mut pr = noise("S3D2-prod+follow", 2, true, false);
            pr.cmp = Cmp::Prod;
            pr.conv = Conv::Parts;
            add(pr, families::slots(3));
            // a consumer validated through the renamed-upstream fallback must still be up to date afterwards
            let mut rn = rename("rename-prod+follow", Conv::Parts, Cmp::Prod);
            rn.follow = true;
            add(rn, families::rename_opts(false, Kind::O, false));
            if thorough {
                let mut l3f = late3f();
                l3f.name = "late3x-k1+follow".into();
                add(l3f, families::late_gadget(3, true));
                // 4 slots: build, one edit with every fault, then the resume / no-op evaluation
                let mut f4 = s("S4D2-k1-ff+follow", 2, m);
                f4.edit_bound = Some(1);
                f4.faults = vec![false, true];
                f4.follow = true;
                add(f4, families::slots_full_only(4));
                let mut lp = s("latepair-faulty-first+follow", 2, m);
                lp.follow = true;
                add(lp, families::late_pair());
                let mut cf = chains(true);
                cf.follow = true;
                cf.name = "chains6+follow".into();
                add(cf, families::chains(6));
                let mut d3f = s("S3D3+follow-last", 3, m);
                d3f.follow = true;
                d3f.faults = vec![true, true, false];
                add(d3f, families::slots(3));
                add(shapes_spec("shapes-D2+follow", 2, true), families::shapes(true));
                let mut rn = rename("rename-prod-y+follow", Conv::Parts, Cmp::Prod);
                rn.follow = true;
                add(rn, families::rename_opts(true, Kind::O, false));
            }
        }
        13 => {
            add(s3(false), families::slots(3));
            add(s4(false), families::slots(4));
            add(s4d2ff(), families::slots(4));
            add(late("late2x", true), families::late_gadget(2, true));
            add(late3u(1), families::late3xu_oe());
            add(late("latepair", true), families::with_declaration_variants(families::late_pair()));
            add(late("bigshapes", true), families::with_declaration_variants(families::big_shapes()));
            add(late("ephdeep", true), families::with_declaration_variants(families::eph_deep_trees()));
            add(late("ephtrees", true), families::with_declaration_variants(families::eph_trees()));
            add(late("ephtrees3", true), families::with_declaration_variants(families::eph_trees3()));
            add(chains(true), families::chains(6));
            let mut cm = chains(true);
            cm.name = "chainsm4".into();
            add(cm, families::chains_multi(4, 2));
            add(shapes_spec("shapes-D2", 2, false), families::shapes(true));
            if thorough {
                let mut l3n = late("late3xun-OE-k1", true);
                l3n.edit_bound = Some(1);
                add(l3n, families::late3xun_oe());
                // the same families under the reversed node / edge declaration orders, faults included
                let of = |mut x: Spec, name: &str| {
                    x.orders = Orders::Few;
                    x.orders_faulty = true;
                    x.name = name.to_string();
                    x
                };
                add(of(late("x", true), "late2x-orders-few-faulty"), families::late_gadget(2, true));
                add(of(late("x", true), "latepair-orders-few-faulty"), families::late_pair());
                add(of(late("x", true), "ephtrees-orders-few-faulty"), families::eph_trees());
                add(of(s4d2ff(), "S4D2-k1-ff-orders-few-faulty"), families::slots_full_only(4));
                let mut l3u = late("late3xu-k1", true);
                l3u.edit_bound = Some(1);
                add(l3u, families::late_gadget_opts(3, true, false, None));
                // thorough: the full 6-job late-requirement family, longer chains, faults in both evaluations
                add(late("late3x", true), families::late_gadget(3, true));
                let mut c7 = chains(true);
                c7.name = "chains7".into();
                add(c7, families::chains(7));
                let mut lp = s("latepair-faulty-first+follow", 2, m);
                lp.follow = true;
                add(lp, families::late_pair());
                let mut l2 = s("late2x-faulty-first+follow", 2, m);
                l2.follow = true;
                add(l2, families::late_gadget(2, true));
                add(s3d3(), families::slots(3));
                add(s4d2k("S4D2-k1", 1, vec![true, true]), families::slots_full_only(4));
                let mut s5 = s("S5D1-full", 1, m);
                s5.faults = vec![true];
                add(s5, families::slots_full_only(5));
            }
        }
        14 => {
            let mut o = s("S3D2-orders", 2, m);
            o.orders = Orders::AllNodes;
            add(o, families::slots(3));
            let mut o4 = s("S4D1-orders-few", 1, m);
            o4.orders = Orders::Few;
            add(o4, families::slots(4));
            add(rename("rename-prod", Conv::Parts, Cmp::Prod), families::rename_opts(true, Kind::O, false));
            add(shapes_spec("shapes-D2", 2, false), families::shapes(true));
            // 4 slots with history: failure-free build, one edit, every schedule, three declaration orders
            let mut o4h = s("S4D2-k1-ff-orders-few", 2, m);
            o4h.edit_bound = Some(1);
            o4h.faults = vec![false, false];
            o4h.orders = Orders::Few;
            add(o4h, families::slots(4));
            // the 5-7 job families, failure-free, identity / reversed node / reversed edge declaration order
            let few = |mut x: Spec| {
                x.orders = Orders::Few;
                x
            };
            add(few(late("late2x-ff-orders-few", false)), families::late_gadget(2, true));
            add(few(late("latepair-ff-orders-few", false)), families::late_pair());
            add(few(late("bigshapes-ff-orders-few", false)), families::big_shapes());
            add(few(late("ephdeep-ff-orders-few", false)), families::eph_deep_trees());
            add(few(late("ephtrees-ff-orders-few", false)), families::eph_trees());
            add(few(late("ephchainsA-ff-orders-few", false)), families::eph_chains_below_always());
            // a resume evaluation (build, one change with every fault, evaluate again) must be as independent
            // of the schedule as any other: the follow-up evaluation is explored under all schedules
            add(alone4(), families::slots_each_alone(4));
            add(few(late("ephtrees3-ff-orders-few", false)), families::eph_trees3());
            add(few(chains(false)), families::chains(6));
            let mut cm = few(chains(false));
            cm.name = "chainsm4-ff".into();
            add(cm, families::chains_multi(4, 2));
            if thorough {
                let mut oa = s("S3D2-orders-all", 2, m);
                oa.orders = Orders::All;
                add(oa, families::slots(3));
                let mut o = s("S4D1-orders", 1, m);
                o.orders = Orders::AllNodes;
                add(o, families::slots_full_only(4));
                let mut d3 = s("S3D3-orders-few", 3, m);
                d3.orders = Orders::Few;
                add(d3, families::slots(3));
                let mut sh = shapes_spec("shapes-D2-orders-few", 2, false);
                sh.orders = Orders::Few;
                add(sh, families::shapes(true));
            }
        }
        15 => {
            add(noise("S3D2-noise-twin+follow", 2, true, true), families::slots(3));
            add(split("split-O", true), families::split_outputs(Kind::O, false));
            add(split("split-E", true), families::split_outputs(Kind::E, false));
            add(split("merge", false), families::merge_outputs());
            // renamed multi-output upstreams whose records differ in the timestamp only
            let mut rn = rename("rename-prod-noise-twin", Conv::Parts, Cmp::Prod);
            rn.noise = true;
            rn.twin = true;
            add(rn, families::rename_opts(false, Kind::O, false));
            add(noise("S3D3-noise-twin-E-consumers", 3, false, true), slots_matching(3, &["EOO", "EEO", "AEO"]));
            let mut o = noise("S3D2-noise-orders", 2, false, false);
            o.orders = Orders::Few;
            o.faults = vec![true, false];
            add(o, families::slots(3));
            if thorough {
                add(noise("S3D3-noise-twin", 3, false, true), families::slots(3));
                add(noise("S4D1-noise-twin+follow", 1, true, true), families::slots(4));
                let mut pr = s("S3D2-prod-twin", 2, m);
                pr.cmp = Cmp::Prod;
                pr.conv = Conv::Parts;
                pr.noise = true;
                pr.twin = true;
                add(pr, families::slots(3));
                add(noise("shapes-D2-noise-twin", 2, false, true), families::shapes(true));
            }
        }
        16 => {
            let mut v = s("S3D2-volatile+follow", 2, m);
            v.follow = true;
            add(v, families::slots_volatile(3));
            let mut vn = noise("S3D2-volatile-noise+follow", 2, true, false);
            vn.follow = true;
            add(vn, families::slots_volatile(3));
            let mut v4 = s("S4D2-volatile-k2", 2, m);
            v4.edit_bound = Some(2);
            v4.faults = vec![false, true];
            add(v4, families::slots_volatile(4).into_iter().filter(|u| u.label.contains("EO") || u.label.contains("EE")).take(12).collect());
            add(late("late2x-volatile", true), families::late_gadget_volatile(2, true));
            add(split("split-E-volatile-q", true), families::split_outputs(Kind::E, true));
            // a validated Ephemeral re-executed with the same content and a newer timestamp, under a
            // comparison that is not symmetric: the question must be asked as (recorded, reported)
            let mut mono = noise("S3D2-mono+follow", 2, true, false);
            mono.cmp = Cmp::Mono;
            add(mono, families::slots(3));
            let mut newer = noise("S3D2-volatile-newer+follow", 2, true, false);
            newer.cmp = Cmp::Newer;
            add(newer, families::slots_volatile(3));
            if thorough {
                add(s("S3D3-volatile", 3, m), families::slots_volatile(3));
                let mut v4 = s("S4D2-volatile-k2-all", 2, m);
                v4.edit_bound = Some(2);
                add(v4, families::slots_volatile(4));
            }
        }
        17 => {
            add(s3(false), families::slots(3));
            add(s4(false), families::slots(4));
            add(s4d2ff(), families::slots(4));
            // a job id re-declared with another kind between evaluations (robustness only: a kind change is a
            // change of behaviour the engine is not told about, so the value-based oracles do not apply)
            add(s("kindswap2-D3", 3, m), families::slots_kindswap(2));
            add(late("late2x", true), families::late_gadget(2, true));
            add(late3u(2), families::late3xu_oe());
            add(late("latepair", true), families::with_declaration_variants(families::late_pair()));
            let mut l4 = late("late4row-k1", true);
            l4.edit_bound = Some(1);
            add(l4, families::late4_row());
            add(late("bigshapes", true), families::with_declaration_variants(families::big_shapes()));
            add(late("ephdeep", true), families::with_declaration_variants(families::eph_deep_trees()));
            add(late("ephtrees", true), families::with_declaration_variants(families::eph_trees()));
            add(late("ephtrees3", true), families::with_declaration_variants(families::eph_trees3()));
            add(chains(true), families::chains(6));
            let mut cm = chains(true);
            cm.name = "chainsm4".into();
            add(cm, families::chains_multi(4, 2));
            add(s("S3D2-volatile", 2, m), families::slots_volatile(3));
            add(shapes_spec("shapes-D2", 2, false), families::shapes(true));
            if thorough {
                let mut l3n = late("late3xun-OE-k1", true);
                l3n.edit_bound = Some(1);
                add(l3n, families::late3xun_oe());
                // the same families under the reversed node / edge declaration orders, faults included
                let of = |mut x: Spec, name: &str| {
                    x.orders = Orders::Few;
                    x.orders_faulty = true;
                    x.name = name.to_string();
                    x
                };
                add(of(late("x", true), "late2x-orders-few-faulty"), families::late_gadget(2, true));
                add(of(late("x", true), "latepair-orders-few-faulty"), families::late_pair());
                add(of(late("x", true), "ephtrees-orders-few-faulty"), families::eph_trees());
                add(of(s4d2ff(), "S4D2-k1-ff-orders-few-faulty"), families::slots_full_only(4));
                let mut ks = s("kindswap3-D2", 2, m);
                ks.faults = vec![false, true];
                add(ks, families::slots_kindswap(3));
                let mut l3u = late("late3xu-k1", true);
                l3u.edit_bound = Some(1);
                add(l3u, families::late_gadget_opts(3, true, false, None));
                // thorough: the full 6-job late-requirement family, longer chains, faults in both evaluations
                add(late("late3x", true), families::late_gadget(3, true));
                let mut c7 = chains(true);
                c7.name = "chains7".into();
                add(c7, families::chains(7));
                let mut lp = s("latepair-faulty-first+follow", 2, m);
                lp.follow = true;
                add(lp, families::late_pair());
                let mut l2 = s("late2x-faulty-first+follow", 2, m);
                l2.follow = true;
                add(l2, families::late_gadget(2, true));
                add(s3d3(), families::slots(3));
                add(s4d2k("S4D2-k1", 1, vec![true, true]), families::slots_full_only(4));
                add(s("S3D2-volatile", 2, m), families::slots_volatile(3));
                let mut s5 = s("S5D1-full", 1, m);
                s5.faults = vec![true];
                add(s5, families::slots_full_only(5));
            }
        }
        18 => {
            add(s3(false), families::slots(3));
            add(s4(false), families::slots(4));
            add(s4d2ff(), families::slots(4));
            add(deep3("S3D4-ff", 4, vec![false; 4]), families::slots(3));
            add(deep3("S3D3-f010", 3, vec![false, true, false]), families::slots(3));
            add(rename("rename-prod", Conv::Parts, Cmp::Prod), families::rename_opts(true, Kind::O, false));
            add(rename("rename-test", Conv::JobIds, Cmp::Plain), families::rename_opts(true, Kind::O, false));
            add(rename("rename3-prod", Conv::Parts, Cmp::Prod), families::rename3());
            if thorough {
                add(s3d3(), families::slots(3));
                add(rename("rename-prod-full", Conv::Parts, Cmp::Prod), families::rename(true, Kind::O));
                add(rename("rename-prod-ephemeral", Conv::Parts, Cmp::Prod), families::rename_opts(true, Kind::E, false));
                let mut r4 = rename("rename-prod-D4", Conv::Parts, Cmp::Prod);
                r4.depth = 4;
                r4.faults = vec![false, true, false, false];
                add(r4, families::rename_opts(false, Kind::O, false));
                add(s4d2k("S4D2-k2", 2, vec![false, true]), families::slots(4));
            }
        }
        20 => {
            let mut a = s3(false);
            a.misuse = true;
            a.name = "S3D2-misuse".into();
            add(a, families::slots(3));
            let mut b = s4(false);
            b.misuse = true;
            b.name = "S4D1-misuse".into();
            add(b, families::slots(4));
            if thorough {
                let mut c = s3d3();
                c.misuse = true;
                c.name = "S3D3-misuse".into();
                add(c, families::slots(3));
                let mut d = shapes_spec("shapes-D2-misuse", 2, false);
                d.misuse = true;
                add(d, families::shapes(true));
            }
        }
        _ => {
            add(s3(false), families::slots(3));
            add(s4(false), families::slots(4));
        }
    }
    // every terminal of every configuration is re-derived by stateless replay for graphs of up to
    // three jobs; above that the first and last four terminals of each configuration
    for r in runs.iter_mut() {
        let big = r.universes.iter().any(|u| u.graphs.iter().any(|g| g.n() >= 4));
        if big {
            r.spec.validate_all = false;
        }
    }
    runs
}

fn parse_tier(args: &[String]) -> String {
    let mut tier = std::env::var("VERIF_TIER").unwrap_or_else(|_| "quick".into());
    let mut i = 0;
    while i < args.len() {
        if args[i] == "--tier" && i + 1 < args.len() {
            tier = args[i + 1].clone();
            i += 1;
        }
        i += 1;
    }
    tier
}

fn time_cap(tier: &str) -> Duration {
    let d = if tier == "thorough" { 40 * 60 } else { 15 * 60 };
    Duration::from_secs(std::env::var("VERIF_TIME_CAP_S").ok().and_then(|x| x.parse().ok()).unwrap_or(d))
}

pub fn cmd_check(args: &[String]) -> i32 {
    let id = match args.first() {
        Some(x) => x.clone(),
        None => {
            eprintln!("usage: ppgmc check <ID> [--tier quick|thorough]");
            return 2;
        }
    };
    let p = match pnum(&id) {
        Some(p) => p,
        None => {
            eprintln!("unknown property {}", id);
            return 2;
        }
    };
    let tier = parse_tier(args);
    let seed: i64 = std::env::var("VERIF_SEED").ok().and_then(|x| x.parse().ok()).unwrap_or(0);
    let t0 = Instant::now();
    if p == 19 {
        return crate::big::check(&tier, seed);
    }
    let runs = plan(p, &tier);
    let coll = Mutex::new(Collector::new());
    let limits = Limits {
        deadline: Some(t0 + time_cap(&tier)),
        stop: AtomicBool::new(false),
    };
    let mut specs: BTreeMap<String, Spec> = BTreeMap::new();
    for r in runs.iter() {
        specs.insert(r.spec.name.clone(), r.spec.clone());
        eprintln!("[{}] family {} ({} universes, depth {}) ...", id, r.spec.name, r.universes.len(), r.spec.depth);
        if let Err(e) = run_family(&r.spec, &r.universes, &coll, &limits) {
            eprintln!("MACHINERY ERROR: {}", e.0);
            return 2;
        }
        let c = coll.lock().unwrap();
        eprintln!(
            "[{}]   cumulative: configs {} states {} transitions {} groups {} ({:.1}s)",
            id,
            c.counters.configurations,
            c.counters.states,
            c.counters.transitions,
            c.groups.len(),
            t0.elapsed().as_secs_f64()
        );
    }
    // regression corpus: directed configurations
    let corpus = run_corpus(p, &coll, &mut specs);
    let coll = coll.into_inner().unwrap();
    finish(&id, p, &tier, seed, t0, coll, specs, corpus)
}

fn run_corpus(p: u32, coll: &Mutex<Collector>, specs: &mut BTreeMap<String, Spec>) -> usize {
    let dir = verif_dir().join("corpus");
    let mut n = 0;
    let mut files: Vec<PathBuf> = match std::fs::read_dir(&dir) {
        Ok(rd) => rd.filter_map(|e| e.ok().map(|e| e.path())).filter(|p| p.extension().map(|x| x == "json").unwrap_or(false)).collect(),
        Err(_) => vec![],
    };
    files.sort();
    for f in files {
        let rf: ReplayFile = match std::fs::read_to_string(&f).ok().and_then(|s| serde_json::from_str(&s).ok()) {
            Some(x) => x,
            None => {
                eprintln!("MACHINERY: cannot parse corpus file {}", f.display());
                std::process::exit(2);
            }
        };
        let mut spec = rf.spec.clone();
        spec.mon = mon(p);
        spec.name = format!("corpus:{}", f.file_name().unwrap().to_string_lossy());
        match replay_report(&rf.report, &spec) {
            Ok(viol) => {
                n += 1;
                let mut c = coll.lock().unwrap();
                c.counters.configurations += 1;
                for (v, stage, evs) in viol {
                    let mut last = rf.report.last.clone();
                    last.events = evs;
                    c.add_report(Report {
                        property: v.prop.to_string(),
                        clause: v.clause.to_string(),
                        message: v.msg.clone(),
                        tags: v.tags.iter().map(|(k, v)| (k.to_string(), v.clone())).collect(),
                        family: spec.name.clone(),
                        universe: "corpus".into(),
                        chain: rf.report.chain.clone(),
                        last,
                        stage,
                    });
                }
                specs.insert(spec.name.clone(), spec);
            }
            Err(e) => {
                // a corpus chain that no longer executes (e.g. the engine now refuses an event) is itself informative,
                // but it is a property of the engine under test only if the chain's own steps violate something;
                // report as machinery problem so it is looked at.
                eprintln!("corpus {}: {}", f.display(), e.0);
            }
        }
    }
    n
}

fn finish(id: &str, p: u32, tier: &str, seed: i64, t0: Instant, coll: Collector, specs: BTreeMap<String, Spec>, corpus: usize) -> i32 {
    let out_dir = verif_dir().join("out").join("replays");
    let verdict = judge(id, &coll, &specs, &out_dir);
    let mut code = 0;
    for k in verdict.known.iter() {
        println!("{}", k);
    }
    for (msg, path) in verdict.violations.iter() {
        println!("VIOLATION property={} replay={}", id, path.display());
        eprintln!("   {}", msg);
        code = 1;
    }
    let mut vacuous = Vec::new();
    for k in required_clauses(p) {
        if coll.ex.m.get(k).copied().unwrap_or(0) == 0 {
            vacuous.push(k);
        }
    }
    let exhaustive = coll.caps_hit.is_empty();
    write_evidence(EvidenceInput {
        prop: id,
        tier,
        level: level_of(p),
        seed,
        wall_s: t0.elapsed().as_secs_f64(),
        counters: &coll.counters,
        ex: &coll.ex,
        samples: coll.samples.clone(),
        bounds_completed: coll.bounds_completed.clone(),
        caps_hit: coll.caps_hit.clone(),
        violations: verdict.violations.len(),
        known_findings: verdict.known.clone(),
        rule: "a case is one configuration = (graph in declaration order, job behaviours, Always versions, input history, outputs present, comparison, naming convention); for each case every interleaving of driver events is explored (with failures/aborts where the family allows) against the real engine; configurations are enumerated without repetition from chains of explored evaluations starting at the empty world; non-trivial = the evaluation has at least 3 distinct states (some scheduling or fault choice exists); distinctness is measured with a 128-bit fingerprint of the configuration".into(),
        exhaustive,
        assumptions: vec![
            "the cfg-guarded hooks in /repo (snapshot, fork, transition log, ordering seams) are faithful; the snapshot is cross-checked against the public queries in every state".into(),
            "job behaviour, materialisation rules and the reference model of mc/src/model.rs and mc/src/sim.rs (DESIGN.md 3.2-3.4)".into(),
            "bounds as listed in coverage.bounds_completed; nothing is claimed beyond them".into(),
            "VERIF_SEED is recorded but unused: there is no random choice anywhere".into(),
        ],
        distinct_nontrivial: coll.distinct_nontrivial,
        extra: serde_json::json!({"corpus_replays": corpus, "vacuous_clauses": vacuous}),
    });
    eprintln!(
        "[{}] {} tier: configs {} states {} transitions {} replays {} wall {:.1}s violations {} known {}",
        id,
        tier,
        coll.counters.configurations,
        coll.counters.states,
        coll.counters.transitions,
        coll.counters.replays_validated,
        t0.elapsed().as_secs_f64(),
        verdict.violations.len(),
        verdict.known.len()
    );
    if !verdict.machinery_errors.is_empty() {
        for e in verdict.machinery_errors.iter() {
            eprintln!("MACHINERY ERROR: {}", e);
        }
        return 2;
    }
    if !vacuous.is_empty() && code == 0 {
        eprintln!("MACHINERY ERROR: monitor clauses never exercised: {:?}", vacuous);
        return 2;
    }
    code
}

pub fn cmd_replay(args: &[String]) -> i32 {
    let path = match args.first() {
        Some(x) => x,
        None => {
            eprintln!("usage: ppgmc replay <file>");
            return 2;
        }
    };
    // C19 replays name one instance of the big-graph family
    if let Some(v) = std::fs::read_to_string(path).ok().and_then(|s| serde_json::from_str::<serde_json::Value>(&s).ok()) {
        if v.get("big_instance").is_some() {
            return crate::big::replay(&v, path);
        }
    }
    let rf: ReplayFile = match std::fs::read_to_string(path).ok().and_then(|s| serde_json::from_str(&s).ok()) {
        Some(x) => x,
        None => {
            eprintln!("cannot read replay file {}", path);
            return 2;
        }
    };
    let rep = &rf.report;
    println!("replaying {} / {} (family {}, universe {})", rep.property, rep.clause, rep.family, rep.universe);
    for (i, st) in rep.chain.iter().enumerate() {
        println!("  evaluation {}: {}", i + 1, step_summary(st));
    }
    println!("  evaluation {} (stage {}): {}", rep.chain.len() + 1, rep.stage, step_summary(&rep.last));
    let mut sets = Vec::new();
    for _ in 0..2 {
        match replay_report(rep, &rf.spec) {
            Ok(v) => {
                let mut set: Vec<String> = v.iter().filter(|(x, _, _)| x.prop == rep.property).map(|(x, st, _)| format!("{} {} [{}] {}", x.prop, x.clause, st, x.msg)).collect();
                set.sort();
                set.dedup();
                sets.push(set);
            }
            Err(e) => {
                eprintln!("MACHINERY ERROR: {}", e.0);
                return 2;
            }
        }
    }
    if sets[0] != sets[1] {
        eprintln!("MACHINERY ERROR: two replays disagree");
        return 2;
    }
    let hit = sets[0].iter().any(|l| l.starts_with(&format!("{} {} ", rep.property, rep.clause)));
    for l in sets[0].iter().take(12) {
        println!("  -> {}", l.chars().take(500).collect::<String>());
    }
    if hit {
        println!("VIOLATION property={} replay={}", rep.property, path);
        1
    } else {
        println!("not reproduced: the property holds on this replay");
        0
    }
}

/// experimentation: ppgmc run <family> <depth> [mon=all|C05,C06] [opts...]
pub fn cmd_run(args: &[String]) -> i32 {
    let fam = args.first().map(|s| &s[..]).unwrap_or("s3");
    let depth: usize = args.get(1).and_then(|x| x.parse().ok()).unwrap_or(2);
    let mut m: Mon = ALL;
    let mut spec = s(fam, depth, m);
    for a in args.iter().skip(2) {
        match &a[..] {
            "follow" => spec.follow = true,
            "noise" => {
                spec.noise = true;
                spec.cmp = Cmp::Noise;
            }
            "prod" => {
                spec.cmp = Cmp::Prod;
                spec.conv = Conv::Parts;
            }
            "mono" => {
                spec.noise = true;
                spec.cmp = Cmp::Mono;
            }
            "newer" => {
                spec.noise = true;
                spec.cmp = Cmp::Newer;
            }
            "exacteph" => {
                spec.noise = true;
                spec.cmp = Cmp::ExactEph;
            }
            "twin" => spec.twin = true,
            "misuse" => spec.misuse = true,
            "orders" => spec.orders = Orders::AllNodes,
            "orders-all" => spec.orders = Orders::All,
            "orders-few" => spec.orders = Orders::Few,
            "orders-faulty" => spec.orders_faulty = true,
            "remove" => spec.fail_mode = FailMode::Remove,
            "reconsider" => spec.reconsider = true,
            "nofaults" => spec.faults = vec![false; depth],
            x if x.starts_with("faults=") => spec.faults = x[7..].chars().map(|c| c == '1').collect(),
            x if x.starts_with("k=") => spec.edit_bound = x[2..].parse().ok(),
            x if x.starts_with("kf=") => spec.edit_bound_after_fault = x[3..].parse().ok(),
            x if x.starts_with("mon=") => {
                m = 0;
                for p in x[4..].split(',') {
                    if p == "all" {
                        m = ALL;
                    } else if let Some(n) = pnum(p) {
                        m |= mon(n);
                    }
                }
                spec.mon = m;
            }
            _ => {
                eprintln!("unknown option {}", a);
                return 2;
            }
        }
    }
    let universes = match fam {
        "s2" => families::slots(2),
        "s3" => families::slots(3),
        "s4" => families::slots(4),
        "s4full" => families::slots_full_only(4),
        "s4alone" => families::slots_each_alone(4),
        "s5full" => families::slots_full_only(5),
        "ignore3" => families::slots_ignore(3),
        "unread3" => families::slots_unread_edge(3),
        "volatile3" => families::slots_volatile(3),
        "volatile4" => families::slots_volatile(4),
        "ephdeep" => families::eph_deep_trees(),
        "rename3" => families::rename3(),
        "splitrename" => families::split_rename(),
        "merge" => families::merge_outputs(),
        "splitO" => families::split_outputs(Kind::O, false),
        "splitE" => families::split_outputs(Kind::E, false),
        "splitEv" => families::split_outputs(Kind::E, true),
        "rename" => families::rename(true, Kind::O),
        "rename-small" => families::rename_opts(false, Kind::O, false),
        "rename-y" => families::rename_opts(true, Kind::O, false),
        "renameE" => families::rename(true, Kind::E),
        "shapes" => families::shapes(true),
        "kindswap2" => families::slots_kindswap(2),
        "kindswap3" => families::slots_kindswap(3),
        "late2" => families::late_gadget(2, true),
        "late4row" => families::late4_row(),
        "late2r" => families::with_slot_removals(families::late_gadget_full(2, true, true, None, false)),
        "late3" => families::late_gadget(3, false),
        "late3x" => families::late_gadget(3, true),
        "late3xu-OOO" => families::late_gadget_opts(3, true, false, Some(vec![Kind::O, Kind::O, Kind::O])),
        "late3xu" => families::late_gadget_opts(3, true, false, None),
        "late3xu-OE" => families::late3xu_oe(),
        "late3x-OE" => families::late3x_oe(),
        "bigshapes" => families::big_shapes(),
        "latepair" => families::late_pair(),
        "ephchainsA" => families::eph_chains_below_always(),
        "ephtrees" => families::eph_trees(),
        "ephtrees3" => families::eph_trees3(),
        "chainsm2" => families::chains_multi(2, 3),
        "chainsm3" => families::chains_multi(3, 2),
        "chainsm4" => families::chains_multi(4, 2),
        "chains5" => families::chains(5),
        "chains6" => families::chains(6),
        _ => {
            eprintln!("unknown family");
            return 2;
        }
    };
    let universes: Vec<Universe> = match std::env::var("PPGMC_UNIVERSE") {
        Ok(f) => universes.into_iter().filter(|u| u.label.contains(&f)).collect(),
        Err(_) => universes,
    };
    let t0 = Instant::now();
    let coll = Mutex::new(Collector::new());
    let limits = Limits {
        deadline: std::env::var("VERIF_TIME_CAP_S").ok().and_then(|x| x.parse().ok()).map(|s: u64| t0 + Duration::from_secs(s)),
        stop: AtomicBool::new(false),
    };
    if let Err(e) = run_family(&spec, &universes, &coll, &limits) {
        eprintln!("MACHINERY ERROR: {}", e.0);
        return 2;
    }
    let c = coll.into_inner().unwrap();
    println!("{}", serde_json::to_string(&c.counters).unwrap());
    println!("bounds: {:?} caps: {:?} wall {:.1}s", c.bounds_completed, c.caps_hit, t0.elapsed().as_secs_f64());
    println!("exercised: {:?}", c.ex.m);
    let mut per: BTreeMap<String, u64> = BTreeMap::new();
    for ((p, _, _), (n, _)) in c.groups.iter() {
        *per.entry(p.clone()).or_insert(0) += n;
    }
    println!("violations per property: {:?}", per);
    for ((p, clause, sig), (n, rep)) in c.groups.iter() {
        println!("--- {} {} [{}] x{} (universe {}, stage {})", p, clause, sig, n, rep.universe, rep.stage);
        println!("    {}", rep.message.chars().take(600).collect::<String>());
        for (i, st) in rep.chain.iter().enumerate() {
            println!("    eval {}: {}", i + 1, step_summary(st));
        }
        println!("    eval {}: {}", rep.chain.len() + 1, step_summary(&rep.last));
    }
    if let Ok(dir) = std::env::var("PPGMC_DUMP") {
        std::fs::create_dir_all(&dir).ok();
        for (i, ((p, clause, _), (_, rep))) in c.groups.iter().enumerate() {
            let rf = ReplayFile {
                report: rep.clone(),
                spec: spec.clone(),
            };
            std::fs::write(format!("{}/{}_{}_{}.json", dir, p, clause, i), serde_json::to_string_pretty(&rf).unwrap()).ok();
        }
    }
    0
}

/// debugging aid: ppgmc trace <replay file>: print the engine state after every event
pub fn cmd_trace(args: &[String]) -> i32 {
    use crate::explore::replay;
    use std::rc::Rc;
    let rf: ReplayFile = match args.first().and_then(|p| std::fs::read_to_string(p).ok()).and_then(|s| serde_json::from_str(&s).ok()) {
        Some(x) => x,
        None => return 2,
    };
    let spec = &rf.spec;
    let mut hist = Hist::new();
    let mut disk = Disk::new();
    let mut steps = rf.report.chain.clone();
    steps.push(rf.report.last.clone());
    for (i, st) in steps.iter().enumerate() {
        for d in &st.deleted {
            disk.remove(d);
        }
        let cfg = Rc::new(make_cfg(spec, &st.graph, &st.versions, &hist, &disk, i, st.seams));
        let refr = Rc::new(reference(&cfg));
        println!("== evaluation {}: {}  versions {:?} deleted {:?}", i + 1, st.graph.describe(), st.versions, st.deleted);
        println!("   hist {:?}\n   disk {:?}", hist, disk);
        println!("   reference: uptodate {:?} exec {:?} relevant {:?}", refr.uptodate, refr.exec, refr.relevant);
        for k in 0..=st.events.len() {
            let (sim, term, found) = replay(&cfg, &refr, &st.events[..k], ALL);
            if sim.dead {
                println!("   after {:?}: engine dead", &st.events[..k].iter().map(ev_str).collect::<Vec<_>>());
            } else {
                let snap = sim.eng.verif_snapshot();
                let states: Vec<String> = snap.jobs.iter().map(|j| format!("{}={:?}", j.job_id, j.state)).collect();
                let edges: Vec<String> = snap.edges.iter().map(|e| format!("{}->{}:{:?}/{:?}", snap.jobs[e.upstream].job_id, snap.jobs[e.downstream].job_id, e.required, e.invalidated)).collect();
                println!("   after {:?}:\n      {}\n      {}\n      ready {:?} cleanup {:?}", st.events[..k].iter().map(ev_str).collect::<Vec<_>>(), states.join(" "), edges.join(" "), snap.ready_to_run, snap.ready_for_cleanup);
            }
            if k == st.events.len() {
                for f in found.iter() {
                    println!("   VIOL {} {} {}", f.viol.prop, f.viol.clause, f.viol.msg);
                }
                match term {
                    Some(t) => {
                        hist = t.hist;
                        disk = t.disk;
                    }
                    None => println!("   (not finished)"),
                }
            }
        }
    }
    0
}

/// `ppgmc plan`: the families every check runs, per tier (markdown; pasted into DESIGN.md)
pub fn cmd_plan() -> i32 {
    println!("| property | quick tier: family (universes, depth, faults per step, options) | added by the thorough tier |");
    println!("|---|---|---|");
    let describe = |r: &Run| -> String {
        let f: String = (0..r.spec.depth).map(|i| if r.spec.faults.get(i).copied().unwrap_or(true) { 'f' } else { '-' }).collect();
        let mut opts: Vec<String> = Vec::new();
        if let Some(k) = r.spec.edit_bound {
            opts.push(format!("k<={}", k));
        }
        if r.spec.follow {
            opts.push("follow-up".into());
        }
        if r.spec.twin {
            opts.push("twin".into());
        }
        if r.spec.misuse {
            opts.push("misuse".into());
        }
        if r.spec.noise {
            opts.push(format!("{:?}", r.spec.cmp).to_lowercase());
        } else if r.spec.cmp != Cmp::Plain {
            opts.push(format!("{:?}", r.spec.cmp).to_lowercase());
        }
        if r.spec.conv == Conv::Parts {
            opts.push("parts".into());
        }
        if r.spec.orders != Orders::None {
            opts.push(format!("orders:{:?}{}", r.spec.orders, if r.spec.orders_faulty { "+faults" } else { "" }));
        }
        if r.spec.fail_mode == FailMode::Remove {
            opts.push("remove-on-failure".into());
        }
        if r.spec.reconsider {
            opts.push("reconsider_all_jobs".into());
        }
        format!("`{}` ({}, {}, {}{}{})", r.spec.name, r.universes.len(), r.spec.depth, f, if opts.is_empty() { "" } else { ", " }, opts.join(" "))
    };
    for p in 1..=20u32 {
        if p == 19 {
            println!("| C19 | big-graph family (mc/src/big.rs): 6 shapes x 5 kind mixes x 7 cascades x sizes 10..4000 x 3 schedules | sizes up to 30000 |");
            continue;
        }
        let q = plan(p, "quick");
        let t = plan(p, "thorough");
        let qn: Vec<String> = q.iter().map(describe).collect();
        let qnames: std::collections::BTreeSet<String> = q.iter().map(|r| r.spec.name.clone()).collect();
        let tn: Vec<String> = t.iter().filter(|r| !qnames.contains(&r.spec.name)).map(describe).collect();
        println!("| C{:02} | {} | {} |", p, qn.join(", "), tn.join(", "));
    }
    0
}
